#!/bin/sh
# Run once after a fresh restore, offline. Nothing to compile for the framework itself (python);
# warms the Verus and Kani caches so the first check is not slower than the rest.
set -e
cd "$(dirname "$0")"
mkdir -p build/vx build/kani evidence/replay
python3 vx/selftest.py
exit 0
