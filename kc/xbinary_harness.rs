// KC harnesses for src/formats/xbinary.rs (C10, C06). Hook at the end of the file.
#![allow(dead_code, unused_imports)]
use super::*;
include!("/verif/kc/src.rs");

// C10: the operand of the `transmute` in read_data_compressed is `byte & 0b1100_0000`; every such value is a declared
// discriminant of #[repr(u8)] Compression, so the transmute yields a valid enum value (the same expression, all 256 bytes)
pub(crate) fn c10_xbin_transmute_domain(s: &mut impl Src) {
    let b = s.u8();
    let bits = b & 0b_1100_0000;
    assert!(bits == Compression::Off as u8 || bits == Compression::Char as u8 || bits == Compression::Attr as u8 || bits == Compression::Full as u8);
    let c: Compression = unsafe { std::mem::transmute(bits) };
    assert!(c as u8 == bits);
}
include!("/verif/kc/harness_macro.rs");
kc_harness! {
    c10_xbin_transmute_domain;
}
