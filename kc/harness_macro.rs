// included by every harness file after the harness bodies
macro_rules! kc_harness {
    ($($name:ident $(, unwind = $u:expr)?);* $(;)?) => {
        $(
            #[cfg(kani)]
            mod $name {
                #[kani::proof]
                $(#[kani::unwind($u)])?
                fn kani() { super::$name(&mut super::KSrc); }
            }
        )*
        #[cfg(not(kani))]
        pub(crate) fn replay(name: &str, data: Vec<u8>) -> Result<bool, String> {
            let mut s = BSrc { data, pos: 0, rejected: false };
            match name {
                $( stringify!($name) => { $name(&mut s); } )*
                _ => return Err(format!("unknown harness {name}")),
            }
            Ok(!s.rejected)
        }
        #[cfg(not(kani))]
        pub(crate) const HARNESSES: &[&str] = &[$(stringify!($name)),*];

        #[cfg(all(test, not(kani)))]
        mod replay_test {
            // VK_REPLAY="<harness>:<hex bytes>"  cargo test --lib vk_replay -- --nocapture
            #[test]
            fn vk_replay() {
                let Ok(spec) = std::env::var("VK_REPLAY") else { return };
                let (name, hex) = spec.split_once(':').unwrap();
                if !super::HARNESSES.contains(&name) {
                    return;
                }
                let data: Vec<u8> = (0..hex.len() / 2).map(|i| u8::from_str_radix(&hex[2 * i..2 * i + 2], 16).unwrap()).collect();
                let r = super::replay(name, data);
                println!("VK_REPLAY_RESULT {name} {r:?}");
            }
        }
    };
}
