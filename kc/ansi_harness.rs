// KC harnesses for src/parsers/ansi (C10, C01). Hook at the end of src/parsers/ansi/mod.rs.
#![allow(dead_code, unused_imports)]
use super::*;
include!("/verif/kc/src.rs");

// C10: HEX_TABLE has 16 entries, so `position()` results are < 16 and `first * 16 + second` <= 255 is a scalar value
pub(crate) fn c10_hex_table_len(s: &mut impl Src) {
    let first = s.usize_below(crate::HEX_TABLE.len());
    let second = s.usize_below(crate::HEX_TABLE.len());
    assert!(crate::HEX_TABLE.len() == 16);
    assert!(char::from_u32((first * 16 + second) as u32).is_some());
}
// the saturating parameter accumulator never leaves 0..=i32::MAX for digit input (used as `num >= 0` by the contracts)
pub(crate) fn c01_parse_next_number_nonneg(s: &mut impl Src) {
    let x = s.i32();
    let ch = s.u8();
    s.assume(x >= 0 && ch.is_ascii_digit());
    assert!(parse_next_number(x, ch) >= 0);
}
include!("/verif/kc/harness_macro.rs");
kc_harness! {
    c10_hex_table_len;
    c01_parse_next_number_nonneg;
}
