// KC harnesses for C19 (src/crc.rs). Included into the real crate by the hook
//   #[cfg(any(kani, icy_engine_verif))] #[path = "/verif/kc/crc_harness.rs"] mod verif_kani;
// at the end of src/crc.rs, so the private tables and `update_slow` are in scope as `super::*`.
// All harnesses are loop-free over full-domain symbolic inputs (complete-finite proofs) unless labelled bounded.
#![allow(dead_code, unused_imports)]
use super::*;
include!("/verif/kc/src.rs");

// ---- bit-at-a-time references written from the property statement ------------------------------------------
fn c16_bit(c: u16) -> u16 {
    if c & 0x8000 != 0 {
        (c << 1) ^ 0x1021
    } else {
        c << 1
    }
}
fn c16_bits8(c: u16) -> u16 {
    c16_bit(c16_bit(c16_bit(c16_bit(c16_bit(c16_bit(c16_bit(c16_bit(c))))))))
}
fn c32_bit(c: u32) -> u32 {
    if c & 1 != 0 {
        (c >> 1) ^ 0xEDB8_8320
    } else {
        c >> 1
    }
}
fn c32_bits8(c: u32) -> u32 {
    c32_bit(c32_bit(c32_bit(c32_bit(c32_bit(c32_bit(c32_bit(c32_bit(c))))))))
}

// discharges the Verus assumption `crc16_table_entry`
pub(crate) fn c19_crc16_table_entry(s: &mut impl Src) {
    let i = s.u8();
    assert!(CRC16_CCITT_TABLE[i as usize] == c16_bits8((i as u16) << 8));
}
// discharges the Verus assumption `crc32_table0_entry`
pub(crate) fn c19_crc32_table0_entry(s: &mut impl Src) {
    let i = s.u8();
    assert!(CRC32_TABLE[0][i as usize] == c32_bits8(i as u32));
}
// discharges the Verus assumption `crc32_tablek_entry`
pub(crate) fn c19_crc32_tablek_entry(s: &mut impl Src) {
    let k = s.usize_below(16);
    s.assume(k >= 1);
    let i = s.u8();
    let p = CRC32_TABLE[k - 1][i as usize];
    assert!(CRC32_TABLE[k][i as usize] == (p >> 8) ^ CRC32_TABLE[0][(p & 0xFF) as usize]);
}
// the property's own "2^16 states x 256 bytes" clause, on the real function
pub(crate) fn c19_update_crc16_step(s: &mut impl Src) {
    let c = s.u16();
    let b = s.u8();
    assert!(update_crc16(c, b) == c16_bits8(c ^ ((b as u16) << 8)));
}
pub(crate) fn c19_update_crc32_step(s: &mut impl Src) {
    let c = s.u32();
    let b = s.u8();
    assert!(update_crc32(c, b) == c32_bits8(c ^ (b as u32)));
}
// one-shot == incremental on short strings (bounded stand-in, length <= 3; the unbounded statement is the
// Verus proof)
pub(crate) fn c19_bounded_oneshot_vs_incremental_len3(s: &mut impl Src) {
    let n = s.usize_below(4);
    let buf = [s.u8(), s.u8(), s.u8()];
    let mut c16 = 0u16;
    let mut c32 = 0xFFFF_FFFFu32;
    let mut i = 0;
    while i < n {
        c16 = update_crc16(c16, buf[i]);
        c32 = update_crc32(c32, buf[i]);
        i += 1;
    }
    assert!(get_crc16(&buf[..n]) == c16);
    assert!(get_crc32(&buf[..n]) == !c32);
}

// one-shot == incremental across the 16-byte fast path of get_crc32 and every remainder length (bounded stand-in: every prefix of one fixed 40-byte string):
// decides changes that restructure get_crc16 / get_crc32 beyond what the extractor can follow (iterator chunks, unrolling)
pub(crate) fn c19_bounded_crc32_len20(s: &mut impl Src) {
    // CBMC cannot carry 16 symbolic table indices per block (measured: no answer in 30 min): the data is one concrete 40-byte string
    // and only the length is symbolic (80 s; a concrete sweep over the 41 lengths takes 560 s)
    let n = s.usize_below(41);
    let mut buf = [0u8; 40];
    let mut i = 0;
    while i < 40 {
        buf[i] = (i as u8).wrapping_mul(37).wrapping_add(11);
        i += 1;
    }
    let mut c32 = 0xFFFF_FFFFu32;
    let mut i = 0;
    while i < 40 {
        if i < n {
            c32 = update_crc32(c32, buf[i]);
        }
        i += 1;
    }
    assert!(get_crc32(&buf[..n]) == !c32);
}
pub(crate) fn c19_bounded_crc16_len9(s: &mut impl Src) {
    let n = s.usize_below(10);
    let mut buf = [0u8; 9];
    let mut c16 = 0u16;
    let mut i = 0;
    while i < 9 {
        buf[i] = s.u8();
        if i < n {
            c16 = update_crc16(c16, buf[i]);
        }
        i += 1;
    }
    assert!(get_crc16(&buf[..n]) == c16);
}

include!("/verif/kc/harness_macro.rs");
kc_harness! {
    c19_crc16_table_entry;
    c19_crc32_table0_entry;
    c19_crc32_tablek_entry;
    c19_update_crc16_step;
    c19_update_crc32_step;
    c19_bounded_oneshot_vs_incremental_len3, unwind = 5;
    c19_bounded_crc32_len20, unwind = 42;
    c19_bounded_crc16_len9, unwind = 11;
}

