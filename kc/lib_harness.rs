// KC harnesses that need only crate-visible items. Hook (src/lib.rs):
//   #[cfg(any(kani, icy_engine_verif))] #[path = "/verif/kc/lib_harness.rs"] mod verif_kani;
#![allow(dead_code, unused_imports)]
use super::*;
include!("/verif/kc/src.rs");

fn mode_of(s: &mut impl Src) -> IceMode {
    match s.usize_below(3) {
        0 => IceMode::Unlimited,
        1 => IceMode::Blink,
        _ => IceMode::Ice,
    }
}

// C18: decode then re-encode in the same mode returns the byte, all 256 bytes x 3 modes
pub(crate) fn c18_attr_byte_roundtrip(s: &mut impl Src) {
    let b = s.u8();
    let m = mode_of(s);
    assert!(TextAttribute::from_u8(b, m).as_u8(m) == b);
}
// C05 / C06: TextAttribute::from_u8 equals the decoding rule of the file formats (spec fn from_u8_spec of unit xbin_load, transcribed):
// all 256 bytes x 3 modes, so ANY formulation of the masks and shifts in the code is decided here, not by bit-vector hints in the Verus unit
pub(crate) fn c05_from_u8_fields(s: &mut impl Src) {
    let a = s.u8();
    let m = mode_of(s);
    let ice = matches!(m, IceMode::Ice);
    let r = TextAttribute::from_u8(a, m);
    assert!(r.get_font_page() == 0);
    assert!(r.get_foreground() == (a & 0b1111) as u32);
    assert!(r.get_background() == if ice { (a >> 4) as u32 } else { ((a >> 4) & 0b0111) as u32 });
    assert!(r.attr == if !ice && a & 0b1000_0000 != 0 { 0b1000u16 } else { 0u16 });
}
// C18: every (fg, bg, blink, bold) expressible in a mode survives encode then decode on fg/bg/blink.
// expressible: blink mode (and unlimited, which decodes like blink): bg < 8; ice: not blinking.
// bold is folded into fg bit 3 by the encoder, so the tuple is expressible when bold implies fg >= 8 is what is shown
pub(crate) fn c18_attr_tuple_roundtrip(s: &mut impl Src) {
    let fg = s.u8();
    let bg = s.u8();
    let blink = s.bool();
    let bold = s.bool();
    let m = mode_of(s);
    s.assume(fg < 16 && bg < 16);
    match m {
        IceMode::Ice => s.assume(!blink),
        _ => s.assume(bg < 8),
    }
    let mut a = TextAttribute::new(fg as u32, bg as u32);
    a.set_is_blinking(blink);
    a.set_is_bold(bold);
    let d = TextAttribute::from_u8(a.as_u8(m), m);
    assert!(d.get_foreground() == (fg as u32 | if bold { 8 } else { 0 }));
    assert!(d.get_background() == bg as u32);
    assert!(d.is_blinking() == blink);
}

// C18 code pages: injectivity of the forward tables (a symbolic pair of indices, loop-free) ...
pub(crate) fn c18_cp437_table_injective(s: &mut impl Src) {
    let i = s.u8() as usize;
    let j = s.u8() as usize;
    s.assume(i != j);
    assert!(crate::parsers::ascii::CP437_TO_UNICODE[i] != crate::parsers::ascii::CP437_TO_UNICODE[j]);
}
// ... and every entry is a char whose code-page image is the index (what the reverse map stores)
pub(crate) fn c18_cp437_ascii_identity(s: &mut impl Src) {
    let c = s.u8();
    s.assume(c == b' ' || c.is_ascii_alphanumeric());
    assert!(crate::parsers::ascii::CP437_TO_UNICODE[c as usize] == c as char);
}
// the converter's decode direction IS the table: all 256 codes (and the characters above the table are passed through).
// Without this clause the table facts above say nothing about what convert_to_unicode returns (seed C18-11)
pub(crate) fn c18_cp437_to_unicode_is_table(s: &mut impl Src) {
    let v = s.u32();
    if let Some(c) = char::from_u32(v) {
        let r = crate::UnicodeConverter::convert_to_unicode(&crate::parsers::ascii::CP437Converter::default(), AttributedChar::new(c, TextAttribute::default()));
        if v < 256 { assert!(r == crate::parsers::ascii::CP437_TO_UNICODE[v as usize]); } else { assert!(r == c); }
    }
}
pub(crate) fn c18_atascii_to_unicode_is_table(s: &mut impl Src) {
    let c = s.u8();
    let r = crate::UnicodeConverter::convert_to_unicode(&crate::parsers::atascii::CharConverter::default(), AttributedChar::new(c as char, TextAttribute::default()));
    assert!(r == crate::parsers::atascii::ATARI_TO_UNICODE[c as usize]);
}
pub(crate) fn c18_atascii_table_injective_128(s: &mut impl Src) {
    let i = s.u8() as usize;
    let j = s.u8() as usize;
    s.assume(i != j && i < 128 && j < 128);
    assert!(crate::parsers::atascii::ATARI_TO_UNICODE[i] != crate::parsers::atascii::ATARI_TO_UNICODE[j]);
}
pub(crate) fn c18_atascii_ascii_identity(s: &mut impl Src) {
    let c = s.u8();
    s.assume(c == b' ' || c.is_ascii_alphanumeric());
    assert!(crate::parsers::atascii::ATARI_TO_UNICODE[c as usize] == c as char);
}

// C01 (emu_ctrla): the colour tables have 8 entries (assumed as axiom_ctrla_tables in the Verus unit)
pub(crate) fn c01_ctrla_table_len(_s: &mut impl Src) {
    assert!(crate::parsers::ctrla::FG.len() == 8 && crate::parsers::ctrla::BG.len() == 8);
}
// S2: the assumed spec of vx_char_in_range (= `(lo..=hi).contains(&c)`), for the ranges used in pcboard::conv_ch and any char
pub(crate) fn std_spec_char_range_contains(s: &mut impl Src) {
    let v = s.u32();
    if let Some(c) = char::from_u32(v) {
        assert!(('a'..='f').contains(&c) == ('a' <= c && c <= 'f'));
        assert!(('A'..='F').contains(&c) == ('A' <= c && c <= 'F'));
    }
}
// S9: the three facts about u8::count_ones assumed as axiom_popcount in the Verus unit color_opt (complete: all 256 values)
pub(crate) fn std_spec_u8_count_ones(s: &mut impl Src) {
    let b = s.u8();
    let n = b.count_ones();
    assert!(n <= 8);
    assert!((n == 0) == (b == 0));
    assert!((n == 8) == (b == 0xFF));
}
// S8: little-endian byte order of the std conversions assumed by vx_u32_le / vx_u16_le / vx_push_u32_le (unit fonts)
pub(crate) fn std_spec_le_bytes(s: &mut impl Src) {
    let x = s.u32();
    let b = u32::to_le_bytes(x);
    assert!(b[0] as u32 + 256 * (b[1] as u32) + 65536 * (b[2] as u32) + 16777216 * (b[3] as u32) == x);
    assert!(u32::from_le_bytes(b) == x);
    let y = (x & 0xFFFF) as u16;
    let c = u16::to_le_bytes(y);
    assert!(c[0] as u16 + 256 * (c[1] as u16) == y && u16::from_le_bytes(c) == y);
    // the signed variants as stated in vx/prelude/std_shims.rs (rule N18)
    let v = c[0] as i64 + 256 * (c[1] as i64);
    assert!(i16::from_le_bytes(c) as i64 == if c[1] < 128 { v } else { v - 65536 });
    let w = b[0] as i64 + 256 * (b[1] as i64) + 65536 * (b[2] as i64) + 16777216 * (b[3] as i64);
    assert!(i32::from_le_bytes(b) as i64 == if b[3] < 128 { w } else { w - 0x1_0000_0000 });
}
// S2: i32::saturating_mul as specified in the Verus prelude (i32_sat_mul), for the multipliers the crate uses (3 and 10)
pub(crate) fn std_spec_i32_saturating_mul(s: &mut impl Src) {
    let a = s.u32() as i32;
    for m in [3i32, 10i32] {
        let wide = (a as i64) * (m as i64);
        let expect = if wide > i32::MAX as i64 { i32::MAX } else if wide < i32::MIN as i64 { i32::MIN } else { wide as i32 };
        assert!(a.saturating_mul(m) == expect);
    }
}
include!("/verif/kc/harness_macro.rs");
kc_harness! {
    c18_attr_byte_roundtrip;
    c18_attr_tuple_roundtrip;
    c05_from_u8_fields;
    c18_cp437_table_injective;
    c18_cp437_ascii_identity;
    c18_cp437_to_unicode_is_table;
    c18_atascii_to_unicode_is_table;
    c18_atascii_table_injective_128;
    c18_atascii_ascii_identity;
    c01_ctrla_table_len;
    std_spec_char_range_contains;
    std_spec_u8_count_ones;
    std_spec_le_bytes;
    std_spec_i32_saturating_mul;
}
