// KC harnesses for the viewdata code table (C18). Hook at the end of src/parsers/viewdata/mod.rs.
#![allow(dead_code, unused_imports)]
use super::*;
include!("/verif/kc/src.rs");

// typed letters, digits and space: the forward table is the identity there, and no *later* index maps to
// the same character (the reverse map is built by inserting indices 0..=255 in order; the last one wins --
// an earlier duplicate such as VIEWDATA_TO_UNICODE[35] == 'f' is therefore harmless for this property)
pub(crate) fn c18_viewdata_alnum_identity(s: &mut impl Src) {
    let c = s.u8();
    s.assume(c.is_ascii_alphanumeric());
    assert!(constants::VIEWDATA_TO_UNICODE[c as usize] == c as char);
}
pub(crate) fn c18_viewdata_alnum_unique(s: &mut impl Src) {
    let c = s.u8();
    let j = s.u8();
    s.assume(c.is_ascii_alphanumeric() && j > c); // insert order 0..=255: the last index wins
    assert!(constants::VIEWDATA_TO_UNICODE[j as usize] != c as char);
}
// the decode direction of the converter is the table, all 256 codes
pub(crate) fn c18_viewdata_to_unicode_is_table(s: &mut impl Src) {
    let c = s.u8();
    let r = crate::UnicodeConverter::convert_to_unicode(&CharConverter::default(), crate::AttributedChar::new(c as char, crate::TextAttribute::default()));
    assert!(r == constants::VIEWDATA_TO_UNICODE[c as usize]);
}
include!("/verif/kc/harness_macro.rs");
kc_harness! {
    c18_viewdata_alnum_identity;
    c18_viewdata_alnum_unique;
    c18_viewdata_to_unicode_is_table;
}
