// Shared by every KC harness file (included with `include!`): a value source that is `kani::any()` under
// Kani and a byte reader under native replay, so that the *same harness body* runs in both worlds.
#[allow(dead_code)]
pub(crate) trait Src {
    fn u8(&mut self) -> u8;
    fn bool(&mut self) -> bool {
        self.u8() & 1 == 1
    }
    fn u16(&mut self) -> u16 {
        let a = self.u8() as u16;
        let b = self.u8() as u16;
        a | (b << 8)
    }
    fn u32(&mut self) -> u32 {
        let a = self.u16() as u32;
        let b = self.u16() as u32;
        a | (b << 16)
    }
    fn i32(&mut self) -> i32 {
        self.u32() as i32
    }
    fn usize_below(&mut self, n: usize) -> usize;
    fn assume(&mut self, c: bool);
}

#[cfg(kani)]
pub(crate) struct KSrc;
#[cfg(kani)]
impl Src for KSrc {
    fn u8(&mut self) -> u8 {
        kani::any()
    }
    fn usize_below(&mut self, n: usize) -> usize {
        let v: usize = kani::any();
        kani::assume(v < n);
        v
    }
    fn assume(&mut self, c: bool) {
        kani::assume(c);
    }
}

/// native replay: bytes come from the counterexample (concrete playback) or a directed search
#[cfg(not(kani))]
#[allow(dead_code)]
pub(crate) struct BSrc {
    pub data: Vec<u8>,
    pub pos: usize,
    pub rejected: bool,
}
#[cfg(not(kani))]
impl Src for BSrc {
    fn u8(&mut self) -> u8 {
        let v = self.data.get(self.pos).copied().unwrap_or(0);
        self.pos += 1;
        v
    }
    fn usize_below(&mut self, n: usize) -> usize {
        let mut v = 0usize;
        for i in 0..8 {
            v |= (self.u8() as usize) << (8 * i);
        }
        if v >= n {
            self.rejected = true;
            return 0;
        }
        v
    }
    fn assume(&mut self, c: bool) {
        if !c {
            self.rejected = true;
        }
    }
}
