// KC harnesses for the PETSCII code table (C18). Hook at the end of src/parsers/petscii/mod.rs.
#![allow(dead_code, unused_imports)]
use super::*;
include!("/verif/kc/src.rs");

// UNICODE_TO_PETSCII = CHAR_TABLE.collect(), PETSCII_TO_UNICODE = swapped pairs .collect().
// With std HashMap semantics (assumed), a typed character survives from_unicode -> to_unicode iff
//  (a) keys are pairwise distinct and values are pairwise distinct, and
//  (b) a character that is not a key is not a value either.
pub(crate) fn c18_petscii_pairs_distinct(s: &mut impl Src) {
    let i = s.usize_below(CHAR_TABLE.len());
    let j = s.usize_below(CHAR_TABLE.len());
    s.assume(i != j);
    assert!(CHAR_TABLE[i].0 != CHAR_TABLE[j].0);
    assert!(CHAR_TABLE[i].1 != CHAR_TABLE[j].1);
}
pub(crate) fn c18_petscii_alnum_closed(s: &mut impl Src) {
    let c = s.u8();
    s.assume(c == b' ' || c.is_ascii_alphanumeric());
    let i = s.usize_below(CHAR_TABLE.len());
    // if c occurs as a value at i, then c must also be a key somewhere (checked by a bounded scan)
    if CHAR_TABLE[i].1 == c {
        let mut found = false;
        let mut k = 0;
        while k < CHAR_TABLE.len() {
            if CHAR_TABLE[k].0 == c {
                found = true;
            }
            k += 1;
        }
        assert!(found);
    }
}
include!("/verif/kc/harness_macro.rs");
kc_harness! {
    c18_petscii_pairs_distinct;
    c18_petscii_alnum_closed, unwind = 260;
}
