"""Engine KC: runs Kani harnesses on the real crate in place (/repo with hook modules under cfg(kani)).

One `cargo kani` invocation per harness group shares one build. Output parsing:
  per harness: list of CBMC checks (SUCCESS / FAILURE / UNREACHABLE...), cover results, verification verdict,
  and -- with concrete playback -- the byte vectors of every kani::any() in order (counterexample).
"""
import json
import os
import re
import subprocess
import time

VERIF = os.path.dirname(os.path.dirname(os.path.abspath(__file__)))
TARGET = os.path.join(VERIF, "build", "kani")
REPLAY_TARGET = os.path.join(VERIF, "build", "replay")


def run_harnesses(names, repo="/repo", timeout=1800, extra=None, jobs=None):
    """Run the harnesses `names` (module path suffixes). Returns dict name -> result."""
    t0 = time.time()
    env = dict(os.environ)
    env["CARGO_NET_OFFLINE"] = "true"
    env["CARGO_TARGET_DIR"] = TARGET
    cmd = ["cargo", "kani", "-Z", "function-contracts", "-Z", "stubbing", "-Z", "concrete-playback",
           "--concrete-playback=print", "--output-format", "regular"]
    if jobs:
        cmd += ["-j", str(jobs)]
    for n in names:
        cmd += ["--harness", n]
    if extra:
        cmd += extra
    try:
        p = subprocess.run(cmd, cwd=repo, env=env, capture_output=True, text=True, timeout=timeout)
        out = p.stdout + "\n" + p.stderr
        rc = p.returncode
    except subprocess.TimeoutExpired as e:
        out = (e.stdout or b"").decode(errors="replace") if isinstance(e.stdout, bytes) else (e.stdout or "")
        out += "\nTIMEOUT"
        rc = -9
        subprocess.run(["pkill", "-x", "cbmc"])
    res = parse_output(out, names)
    res["_meta"] = dict(cmd=" ".join(cmd), rc=rc, wall_s=round(time.time() - t0, 2), raw_tail=out[-3000:])
    if rc not in (0, 1) or "error: could not compile" in out or "error[E" in out:
        res["_meta"]["build_failed"] = True
        m = re.findall(r"(error(?:\[E\d+\])?: .*(?:\n.*){0,6})", out)
        res["_meta"]["build_errors"] = m[:5]
    return res


HARNESS_RE = re.compile(r"^Checking harness (\S+?)\.\.\.", re.M)


def parse_output(out, names):
    res = {}
    # split per harness
    parts = HARNESS_RE.split(out)
    # parts = [pre, name1, body1, name2, body2...]
    for i in range(1, len(parts), 2):
        full = parts[i]
        body = parts[i + 1]
        short = None
        for n in names:
            if full.endswith(n) or full.endswith(n + "::kani") or (n + "::") in full or full.split("::")[-1] == n:
                short = n
        if short is None:
            short = full
        checks = []
        for m in re.finditer(r"Check (\d+): (\S+)\n\s+- Status: (\w+)\n\s+- Description: \"((?:[^\"\\]|\\.)*)\"(?:\n\s+- Location: (.*))?", body):
            checks.append(dict(n=int(m.group(1)), name=m.group(2), status=m.group(3), desc=" ".join(m.group(4).split()),
                               loc=(m.group(5) or "").strip()))
        verdict = "UNKNOWN"
        m = re.search(r"VERIFICATION:- (\w+)", body)
        if m:
            verdict = m.group(1)
        tm = re.search(r"Verification Time: ([\d.]+)s", body)
        # concrete playback: Kani prints a unit test with `vec![..]` lines for every any()
        cex = []
        pb = re.search(r"Concrete playback unit test for `.*?`:\n```\n(.*?)```", body, re.S)
        if pb:
            for vm in re.finditer(r"vec!\[([0-9,\s]*)\]", pb.group(1)):
                cex.append([int(x) for x in vm.group(1).replace(" ", "").split(",") if x != ""])
        res[short] = dict(full=full, checks=checks, verdict=verdict,
                          time_s=float(tm.group(1)) if tm else None, counterexample=cex,
                          failed=[c for c in checks if c["status"] == "FAILURE"],
                          n_checks=len(checks), n_success=sum(1 for c in checks if c["status"] == "SUCCESS"),
                          unwinding_failed=any("unwinding assertion" in c["desc"] and c["status"] == "FAILURE" for c in checks))
    return res


def native_replay(harness, data_bytes, repo="/repo", timeout=900):
    """Re-run the same harness body natively (debug profile, overflow checks on) with the counterexample bytes."""
    env = dict(os.environ)
    env["CARGO_TARGET_DIR"] = REPLAY_TARGET
    env["RUSTFLAGS"] = "--cfg icy_engine_verif"
    env["VK_REPLAY"] = harness + ":" + "".join(f"{b:02x}" for b in data_bytes)
    env["RUST_BACKTRACE"] = "0"
    cmd = ["cargo", "test", "--lib", "--offline", "vk_replay", "--", "--nocapture", "--test-threads", "1"]
    try:
        p = subprocess.run(cmd, cwd=repo, env=env, capture_output=True, text=True, timeout=timeout)
    except subprocess.TimeoutExpired:
        return dict(ran=False, note="native replay timed out")
    out = p.stdout + p.stderr
    m = re.search(r"VK_REPLAY_RESULT (\S+) (.*)", out)
    panicked = re.search(r"panicked at (.*?):\n(.*)", out)
    return dict(ran=True, cmd="cd /repo && CARGO_TARGET_DIR=" + REPLAY_TARGET + " VK_REPLAY=" + env["VK_REPLAY"] + " RUSTFLAGS='--cfg icy_engine_verif' " + " ".join(cmd),
                result_line=m.group(0) if m else None,
                panicked=bool(panicked), panic=(panicked.group(1) + ": " + panicked.group(2)) if panicked else None,
                reproduced=bool(panicked) and not m, tail=out[-1500:])


if __name__ == "__main__":
    import sys
    r = run_harnesses(sys.argv[1:])
    for k, v in r.items():
        if k == "_meta":
            print(k, {x: y for x, y in v.items() if x != "raw_tail"})
            continue
        print(k, v["verdict"], v["n_success"], "/", v["n_checks"], v["time_s"], "cex:", v["counterexample"],
              [c["desc"] for c in v["failed"]])
