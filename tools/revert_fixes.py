#!/usr/bin/env python3
"""For every `fixed:` entry of known_findings.txt: revert that commit on top of /repo's HEAD in a scratch worktree and run the
property's check there. A fixed entry "suppresses nothing": the check has to report the violation again (exit 1).
usage: revert_fixes.py [commit ...]      writes build/revert_fixes.json
"""
import json, os, re, subprocess, sys, shutil
ROOT = os.path.dirname(os.path.dirname(os.path.abspath(__file__)))
ents = []
for ln in open(os.path.join(ROOT, "known_findings.txt")):
    m = re.match(r"fixed: property=(C\d+) ([0-9a-f]{7,}) (.*)", ln)
    if m:
        ents.append(m.groups())
only = set(sys.argv[1:])
out = {}
outp = os.path.join(ROOT, "build", "revert_fixes.json")
if os.path.exists(outp) and only:
    out = json.load(open(outp))
for prop, commit, what in ents:
    if only and commit not in only:
        continue
    wt = f"/tmp/revfix_{commit}"
    subprocess.run(["git", "-C", "/repo", "worktree", "remove", "--force", wt], capture_output=True)
    subprocess.run(["git", "-C", "/repo", "worktree", "add", "--detach", "-q", wt, "HEAD"], check=True)
    try:
        r = subprocess.run(["git", "-C", wt, "revert", "--no-commit", commit], capture_output=True, text=True)
        if r.returncode != 0:
            out[commit] = dict(property=prop, result="revert-conflict", what=what[:120])
            print(commit, prop, "revert-conflict", flush=True)
            continue
        evd = f"/tmp/revfix_ev_{commit}"
        p = subprocess.run([os.path.join(ROOT, "check"), prop, "--repo", wt, "--evidence-dir", evd], capture_output=True, text=True, cwd=ROOT, timeout=3600)
        lines = [l for l in p.stdout.split("\n") if l.startswith("VIOLATION") or l.startswith("  failed") or l.startswith("UNDECIDED")]
        out[commit] = dict(property=prop, exit=p.returncode, what=what[:120], lines=[l[:300] for l in lines[:4]])
        print(commit, prop, "exit", p.returncode, flush=True)
        shutil.rmtree(evd, ignore_errors=True)
    finally:
        subprocess.run(["git", "-C", "/repo", "worktree", "remove", "--force", wt], capture_output=True)
    json.dump(out, open(outp, "w"), indent=1)
