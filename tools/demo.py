#!/usr/bin/env python3
"""Run a demonstration test file against a given commit of /repo in a scratch worktree.
usage: demo.py <commit-ish> <demo.rs> [test-filter]     (worktree + build output are removed afterwards)"""
import os, subprocess, sys, shutil
commit, demo = sys.argv[1], os.path.abspath(sys.argv[2])
flt = sys.argv[3] if len(sys.argv) > 3 else "zz_demo"
wt = "/tmp/demo_wt_%d" % os.getpid()
subprocess.run(["git", "-C", "/repo", "worktree", "add", "--detach", "-q", wt, commit], check=True)
try:
    shutil.copy(demo, os.path.join(wt, "src", "zz_demo.rs"))
    with open(os.path.join(wt, "src", "lib.rs"), "a") as f:
        f.write("\n#[cfg(test)]\nmod zz_demo;\n")
    env = dict(os.environ, CARGO_TARGET_DIR="/verif/build/demo")
    p = subprocess.run(["cargo", "test", "--lib", "--offline", flt, "--", "--test-threads", "1"], cwd=wt, env=env, capture_output=True, text=True)
    out = p.stdout + p.stderr
    for ln in out.split("\n"):
        if any(k in ln for k in ("panicked", "test result", "assertion", "index out", "overflow", "error[", "error:", "DEMO")):
            print(ln)
    print("exit", p.returncode)
finally:
    subprocess.run(["git", "-C", "/repo", "worktree", "remove", "--force", wt])
