#!/bin/bash
# run every claimed property's quick check on /repo; print one line per property; exit non-zero if any is not 0
cd /verif
rc=0
for p in $(python3 -c "import props; print(' '.join(props.PROPS.keys()))"); do
  out=$(./check $p 2>&1); e=$?
  echo "$p exit=$e $(echo "$out" | grep -E '^C[0-9]+:' | tail -1)"
  [ $e -ne 0 ] && { rc=1; echo "$out" | grep -E "UNDECIDED|VIOLATION|FAIL" | head -5; }
done
exit $rc
