#!/usr/bin/env python3
"""Confirm a seeded change and run the property's check against it.
usage: seedtest.py <seed-dir> <property> [--skip-confirm]
Steps (all in a scratch worktree of /repo HEAD, removed afterwards):
  1. demo passes on the unchanged tree; 2. patch applies, crate builds, the 227 baseline tests still pass;
  3. demo fails with the patch; 4. ./check <property> --repo <worktree> must report a VIOLATION (exit 1).
Writes <seed-dir>/meta.json."""
import json, os, re, subprocess, sys, shutil, time
seed = os.path.abspath(sys.argv[1]); prop = sys.argv[2]
skip = "--skip-confirm" in sys.argv
ROOT = os.path.dirname(os.path.dirname(os.path.abspath(__file__)))
wt = f"/tmp/seedwt_{os.path.basename(seed)}_{os.getpid()}"
env = dict(os.environ, CARGO_TARGET_DIR=f"/verif/build/seedtest")
def sh(cmd, cwd=None, timeout=3000):
    p = subprocess.run(cmd, shell=True, cwd=cwd, env=env, capture_output=True, text=True, timeout=timeout)
    return p.returncode, p.stdout + p.stderr
_old = {}
if skip and os.path.exists(os.path.join(seed, "meta.json")):
    try:
        _old = json.load(open(os.path.join(seed, "meta.json")))   # --skip-confirm keeps the recorded confirmation
    except Exception:
        _old = {}
meta = dict({k: v for k, v in _old.items() if k in ("demo_on_unchanged_tree", "baseline_tests_passing_with_patch", "baseline_missing", "demo_with_patch", "demo_output_tail")},
            seed=os.path.basename(seed), property=prop, base_commit=subprocess.run("git -C /repo rev-parse --short HEAD", shell=True, capture_output=True, text=True).stdout.strip())
notes = os.path.join(seed, "notes.txt")
if os.path.exists(notes):
    meta["needs_to_manifest"] = open(notes).read().strip()[:1500]
subprocess.run(["git", "-C", "/repo", "worktree", "add", "--detach", "-q", wt, "HEAD"], check=True)
try:
    def run_demo():
        shutil.copy(os.path.join(seed, "demo.rs"), os.path.join(wt, "src", "zz_demo.rs"))
        lib = os.path.join(wt, "src", "lib.rs"); orig = open(lib).read()
        open(lib, "a").write("\n#[cfg(test)]\nmod zz_demo;\n")
        rc, out = sh("cargo test --lib --offline zz_demo -- --test-threads 1", wt)
        open(lib, "w").write(orig); os.remove(os.path.join(wt, "src", "zz_demo.rs"))
        m = re.search(r"test result: (\w+)\. (\d+) passed; (\d+) failed", out)
        return (m.group(1) if m else "build-error"), out[-1500:]
    if not skip:
        r0, o0 = run_demo(); meta["demo_on_unchanged_tree"] = r0
    rc, out = sh(f"git apply {seed}/patch.diff", wt); meta["patch_applies"] = rc == 0
    if rc != 0: meta["apply_error"] = out[-500:]
    if not skip and rc == 0:
        rc, out = sh("cargo test --workspace --no-fail-fast --offline", wt)
        ok = set("icy_engine::" + m.group(1) for m in re.finditer(r"^test (\S+) \.\.\. ok", out, re.M))
        base = json.load(open("/root/.vp/BASELINE.json"))["stable_pass"]
        miss = [t for t in base if t not in ok]
        meta["baseline_tests_passing_with_patch"] = len(base) - len(miss); meta["baseline_missing"] = miss[:10]
        r1, o1 = run_demo(); meta["demo_with_patch"] = r1; meta["demo_output_tail"] = o1[-600:]
    t0 = time.time()
    evd = f"/tmp/seed_evidence_{os.path.basename(seed)}"
    os.makedirs(evd, exist_ok=True)
    p = subprocess.run([os.path.join(ROOT, "check"), prop, "--repo", wt, "--evidence-dir", evd], capture_output=True, text=True, cwd=ROOT, timeout=3600)
    meta["check_cmd"] = f"./check {prop} --repo <worktree with patch applied>"
    meta["check_exit"] = p.returncode
    meta["check_output"] = p.stdout[-2500:]
    meta["check_wall_s"] = round(time.time() - t0, 1)
    meta["detected"] = p.returncode == 1 and "VIOLATION" in p.stdout
    shutil.rmtree(evd, ignore_errors=True)
finally:
    subprocess.run(["git", "-C", "/repo", "worktree", "remove", "--force", wt])
json.dump(meta, open(os.path.join(seed, "meta.json"), "w"), indent=1)
print(json.dumps({k: meta[k] for k in meta if k not in ("check_output", "demo_output_tail", "needs_to_manifest")}, indent=1))
print(meta.get("check_output", "")[-800:])
