#!/bin/bash
cd /verif
for s in "$@"; do
  p=${s%-*}
  python3 tools/seedtest.py seeded/$s $p > build/seedlog_$s.txt 2>&1
  echo "$s done: $(grep -o '"detected": [a-z]*' build/seedlog_$s.txt) exit=$(grep -o '"check_exit": [0-9]*' build/seedlog_$s.txt)"
done
