#!/usr/bin/env python3
"""Writes /verif/MANIFEST.json from props.py (claimed checks) and the N/A table below."""
import json, os, sys
ROOT = os.path.dirname(os.path.dirname(os.path.abspath(__file__)))
sys.path.insert(0, ROOT)
import props

NA = {
 "C04": "ANSI write/parse round trip: needs a functional specification of the 2500-line ANSI dispatcher and reasoning about format!-built decimal escape sequences; neither Verus nor Kani can take the dispatcher (measured: Kani OOM on one step) and neither has a string theory; contracts on fragments would verify without deciding the property (DESIGN.md 7)",
 "C07": "IcyDraw lossless: encoder and decoder are single 300-line functions around the png crate's streaming codec, zTXt, base64 and HashMap font tables; the cell codec is inlined in decoder callbacks; no separable function carries the property and both verifiers reject the surrounding code (DESIGN.md 7)",
 "C08": "Undo/redo over all edit histories: whole-history property over 44 Box<dyn UndoOperation> implementations in Arc<Mutex<Vec<..>>> mutating the full Buffer; trait-object dispatch and Arc<Mutex> are outside Verus here, Buffer cannot be built in Kani (drop-glue ICE); the stack-discipline fragment alone does not decide it (DESIGN.md 7)",
 "C15": "Avatar/PCBoard/Ctrl-A/Renegade/ASCII/ATASCII round trip: every writer's output is re-read through the ANSI fall-back path and format!-built text; no contract in reach states parser(writer(b)) = b (DESIGN.md 7)",
 "C20": "RIPscrip/IGS: 8000 lines of command tables with f64 trigonometry, flood fill, todo!() arms and an external 2-D canvas; floating point and table size put it outside both tools (DESIGN.md 7)",
}

def main():
    checks = []
    for pid in sorted(props.PROPS):
        P = props.PROPS[pid]
        checks.append(dict(
            property_id=pid,
            quick_cmd=f"./check {pid} --tier quick",
            thorough_cmd=f"./check {pid} --tier thorough",
            evidence_file=f"/verif/evidence/{pid}.json",
            replay_cmd_template="./check " + pid + " --replay {path}",
            engine=P.get("engine", "verus (VX) + kani (KC)"),
            level_claimed=dict(category="proof", text=P.get("level_text", P.get("explanation", "")), design_ref=P.get("design_ref", "DESIGN.md 5 " + pid)),
            level_note=P.get("level_note", "; ".join(P.get("trusted_base", []))[:1500]),
            technique=P.get("technique", "contract-based deductive verification: Verus contracts on mechanically extracted real functions; Kani complete-finite harnesses on the real crate"),
        ))
    na = []
    for pid in [f"C{n:02d}" for n in range(1, 21)]:
        if pid in props.PROPS:
            continue
        reason = NA.get(pid) or props.PENDING.get(pid) if hasattr(props, "PENDING") else NA.get(pid)
        na.append(dict(property_id=pid, reason=reason or "not yet under contract in this build of the machinery (see DESIGN.md 9 build order)"))
    m = dict(
        version=1,
        setup_cmd="./setup.sh",
        hooks=dict(
            guard="cfg(kani) / cfg(icy_engine_verif)",
            enable="cargo kani sets --cfg kani; native replay builds use RUSTFLAGS='--cfg icy_engine_verif'",
            baseline_off_cmd="cd /repo && cargo test --workspace --no-fail-fast --offline",
            source_commits=open(os.path.join(ROOT, "hooks_commits.txt")).read().split() if os.path.exists(os.path.join(ROOT, "hooks_commits.txt")) else [],
            add_only=True,
        ),
        engines=[
            dict(name="VX", path="/verif/vx", serves_properties=sorted(p for p in props.PROPS if props.PROPS[p].get("units")),
                 kind_free_text="Verus on functions extracted mechanically from /repo on every run, contracts spliced from vx/units/*.vc"),
            dict(name="KC", path="/verif/kc", serves_properties=sorted(p for p in props.PROPS if props.PROPS[p].get("kani_quick")),
                 kind_free_text="Kani harnesses/contracts compiled into the real crate in place via cfg(kani) hook modules"),
        ],
        checks=checks,
        notes="exit 0 = all obligations discharged (known findings printed); exit 1 = failed obligation (VIOLATION line); exit 2 = undecided (lost anchor, unsupported construct, resource limit) - never on the unchanged tree",
        not_applicable=na,
    )
    json.dump(m, open(os.path.join(ROOT, "MANIFEST.json"), "w"), indent=1)
    print("wrote MANIFEST.json with", len(checks), "checks,", len(na), "not_applicable")

main()
