#!/usr/bin/env python3
"""Runs the repository test suite (guard off) and compares with /root/.vp/BASELINE.json stable_pass."""
import json, re, subprocess, sys
repo = sys.argv[1] if len(sys.argv) > 1 else "/repo"
base = json.load(open("/root/.vp/BASELINE.json"))
p = subprocess.run("cargo test --workspace --no-fail-fast --offline 2>&1", shell=True, cwd=repo, capture_output=True, text=True)
ok = set()
for m in re.finditer(r"^test (\S+) \.\.\. ok", p.stdout, re.M):
    ok.add("icy_engine::" + m.group(1))
missing = [t for t in base["stable_pass"] if t not in ok]
print(f"passed {len(ok)}; stable_pass {len(base['stable_pass'])}; missing {len(missing)}")
for t in missing[:20]:
    print("  NOT PASSING:", t)
if "error: could not compile" in p.stdout:
    print(p.stdout[-3000:])
sys.exit(1 if missing else 0)
