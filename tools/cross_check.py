#!/usr/bin/env python3
"""Soundness experiment: for a seeded change that breaks property X, run the checks of all OTHER properties on the patched tree.
An alarm there is either legitimate (the change breaks that property as well) or a false alarm of that check - each one is looked at by hand.
usage: cross_check.py <seed> ...      appends to build/cross_check.json"""
import json, os, subprocess, sys, shutil, concurrent.futures as cf
ROOT = os.path.dirname(os.path.dirname(os.path.abspath(__file__)))
sys.path.insert(0, ROOT)
import props
outp = os.path.join(ROOT, "build", "cross_check.json")
out = json.load(open(outp)) if os.path.exists(outp) else {}
for seed in sys.argv[1:]:
    own = seed.split("-")[0]
    wt = f"/tmp/xc_{seed}"
    subprocess.run(["git", "-C", "/repo", "worktree", "remove", "--force", wt], capture_output=True)
    subprocess.run(["git", "-C", "/repo", "worktree", "add", "--detach", "-q", wt, "HEAD"], check=True)
    try:
        r = subprocess.run(["git", "-C", wt, "apply", os.path.join(ROOT, "seeded", seed, "patch.diff")], capture_output=True, text=True)
        if r.returncode != 0:
            out[seed] = dict(error="patch does not apply")
            continue
        def one(p):
            ev = f"/tmp/xc_ev_{seed}_{p}"
            q = subprocess.run([os.path.join(ROOT, "check"), p, "--repo", wt, "--evidence-dir", ev], capture_output=True, text=True, cwd=ROOT, timeout=3600)
            lines = [l[:400] for l in q.stdout.split("\n") if l.startswith("  failed") or l.startswith("UNDECIDED")][:4]
            shutil.rmtree(ev, ignore_errors=True)
            return p, q.returncode, lines
        res = {}
        with cf.ThreadPoolExecutor(max_workers=3) as ex:
            for p, rc, lines in ex.map(one, [p for p in props.PROPS if p != own]):
                if rc != 0:
                    res[p] = dict(exit=rc, lines=lines)
        out[seed] = res
        print(seed, {p: v["exit"] for p, v in res.items()}, flush=True)
    finally:
        subprocess.run(["git", "-C", "/repo", "worktree", "remove", "--force", wt], capture_output=True)
    json.dump(out, open(outp, "w"), indent=1)
