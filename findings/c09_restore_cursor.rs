// Demonstration (C09): a cursor saved at the top row (`ESC [ s` or `ESC 7`), then 40 line feeds on an 80x25 screen
// (first visible row 16), then `ESC [ u` / `ESC 8`: the cursor was restored to buffer row 0, above the visible screen.
#[test]
fn c09_restore_cursor() {
    use crate::{ansi, Buffer, BufferParser, Caret};
    for (save, restore) in [(&b"\x1b[s"[..], &b"\x1b[u"[..]), (&b"\x1b7"[..], &b"\x1b8"[..])] {
        let mut buf = Buffer::new((80, 25));
        buf.is_terminal_buffer = true;
        let mut caret = Caret::default();
        let mut p = ansi::Parser::default();
        let mut input = save.to_vec();
        input.extend_from_slice(&[b'\n'; 40]);
        input.extend_from_slice(restore);
        for b in &input {
            let _ = p.print_char(&mut buf, 0, &mut caret, *b as char);
        }
        let first = buf.get_first_visible_line();
        let y = caret.get_position().y;
        assert!(first <= y && y < first + buf.terminal_state.get_height(), "cursor row {y}, visible rows start at {first}");
    }
}
