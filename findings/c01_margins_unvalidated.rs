// Demonstration (C01): DECSTBM parameters were stored unvalidated. `ESC [ 0 ; 0 r` stored Some((-1,-1)); a following
// insert-line (`ESC [ L`) then called lines.remove(usize::MAX) and panicked; `ESC [ 1 ; 2147483647 r` made
// `first_visible + end` overflow in get_last_editable_line (debug profile) on the next line feed.
#[test]
fn c01_margins_unvalidated() {
    use crate::{ansi, Buffer, BufferParser, Caret};
    for seq in [&b"\x1b[0;0r\x1b[L"[..], &b"\x1b[1;2147483647r\n\n"[..], &b"\x1b[0;0r\x1b[M"[..]] {
        let mut buf = Buffer::new((80, 25));
        buf.is_terminal_buffer = true;
        let mut caret = Caret::default();
        let mut p = ansi::Parser::default();
        for b in seq {
            let _ = p.print_char(&mut buf, 0, &mut caret, *b as char);
        }
    }
}
