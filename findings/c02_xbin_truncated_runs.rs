// C02 finding: read_data_compressed indexed bytes[o] right after a run header without checking that a payload byte
// exists, so an XBin file cut off after a char/attr/full run header panicked instead of loading (or failing cleanly).
use crate::Buffer;

fn xbin(flags: u8, data: &[u8]) -> Vec<u8> {
    let mut v = b"XBIN\x1A".to_vec();
    v.extend_from_slice(&[4, 0, 2, 0, 16, flags]);
    v.extend_from_slice(data);
    v
}

#[test]
fn zz_demo_truncated_run_header_does_not_panic() {
    for tail in [&[0x41u8][..], &[0x81], &[0xC1], &[0x00, b'A', 7, 0x43], &[0xC0, b'A']] {
        let bytes = xbin(0b100, tail);
        let r = std::panic::catch_unwind(|| Buffer::from_bytes(std::path::Path::new("t.xb"), true, &bytes).is_ok());
        assert!(r.is_ok(), "DEMO loader panicked on compressed data {tail:02X?}");
    }
}
