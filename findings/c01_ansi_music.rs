// C01 finding (music option on): the note table was indexed with n + octave*12 where n had already been raised by '+'
// up to 83, so `O6 B +` followed by any other byte indexed FREQ[84] and panicked; note / pause lengths taken from
// digits were multiplied (`len * 3 / 2`, `tempo * len`) without a bound and overflowed.
use crate::{ansi, Buffer, BufferParser, Caret};

fn feed(input: &[u8]) -> bool {
    let input = input.to_vec();
    std::panic::catch_unwind(move || {
        let mut parser = ansi::Parser::default();
        parser.ansi_music = ansi::MusicOption::Both;
        let mut buf = Buffer::create((80, 25));
        buf.is_terminal_buffer = true;
        let mut caret = Caret::default();
        for b in input {
            let _ = parser.print_char(&mut buf, 0, &mut caret, b as char);
        }
    })
    .is_ok()
}

#[test]
fn zz_demo_ansi_music_never_panics() {
    assert!(feed(b"\x1b[MFO6B+C"), "DEMO panicked: octave 6, B sharp");
    assert!(feed(b"\x1b[MFC9999999999.C"), "DEMO panicked: dotted note of saturated length");
    assert!(feed(b"\x1b[MFT255C9999999999D"), "DEMO panicked: tempo * length");
    assert!(feed(b"\x1b[MFL9999999999.C"), "DEMO panicked: dotted default length");
    assert!(feed(b"\x1b[MFP9999999999.C"), "DEMO panicked: dotted pause");
}
