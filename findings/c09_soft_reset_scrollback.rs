// Demonstration (C09): ANSI soft terminal reset (DECSTR, CSI ! p) puts the cursor at buffer row 0 without regard to the
// scrollback: after 30 line feeds on an 80x25 terminal the first visible row is 6, the cursor lands on row 0 - above the screen.
#[test]
fn zz_demo_c09_soft_reset_keeps_cursor_on_screen() {
    use crate::{ansi, Buffer, BufferParser, Caret, TextPane};
    let mut buf = Buffer::new((80, 25));
    buf.is_terminal_buffer = true;
    let mut caret = Caret::default();
    let mut p = ansi::Parser::default();
    for _ in 0..30 {
        let _ = p.print_char(&mut buf, 0, &mut caret, '\n');
    }
    for ch in "\x1b[!p".chars() {
        let _ = p.print_char(&mut buf, 0, &mut caret, ch);
    }
    let first = buf.get_first_visible_line();
    let pos = caret.get_position();
    assert!(first > 0, "scrollback exists");
    assert!(pos.y >= first && pos.y < first + buf.terminal_state.get_height(), "DEMO cursor row {} outside the visible rows {}..{}", pos.y, first, first + buf.terminal_state.get_height());
}
