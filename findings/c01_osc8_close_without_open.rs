// Demonstration (C01): `ESC ] 8 ; ; ESC \` (close hyperlink) with no hyperlink open: hyper_links.pop().unwrap() panicked.
#[test]
fn c01_osc8_close_without_open() {
    use crate::{ansi, Buffer, BufferParser, Caret};
    let mut buf = Buffer::new((80, 25));
    buf.is_terminal_buffer = true;
    let mut caret = Caret::default();
    let mut p = ansi::Parser::default();
    for b in b"\x1b]8;;\x1b\\" {
        let _ = p.print_char(&mut buf, 0, &mut caret, *b as char);
    }
}
