// Demonstration (C02/C11): a file that consists of nothing but a 128-byte SAUCE record. SauceData::extract computed
// `len - 1` with len == 0 (the record starts at offset 0, there is no EOF byte) -> subtract with overflow.
#[test]
fn c02_sauce_only_file() {
    let mut rec = Vec::new();
    rec.extend_from_slice(b"SAUCE00");
    rec.extend_from_slice(&[b' '; 35 + 20 + 20]);
    rec.extend_from_slice(b"20240101");
    rec.resize(128, 0);
    assert_eq!(rec.len(), 128);
    let r = crate::SauceData::extract(&rec);
    let s = r.unwrap().unwrap();
    assert!(s.sauce_header_len <= rec.len());
    let _ = crate::Buffer::from_bytes(std::path::Path::new("x.ans"), false, &rec);
}
