// Demonstration (C09): CVT (`ESC [ 20 Y`) from the last tab stop: next_tab_stop returns the screen width, and the cursor
// was left at column 80 of an 80-column screen.
#[test]
fn c09_cvt_last_tab() {
    use crate::{ansi, Buffer, BufferParser, Caret};
    let mut buf = Buffer::new((80, 25));
    buf.is_terminal_buffer = true;
    let mut caret = Caret::default();
    let mut p = ansi::Parser::default();
    for b in b"\x1b[20Y" {
        let _ = p.print_char(&mut buf, 0, &mut caret, *b as char);
    }
    assert!(caret.get_position().x < buf.terminal_state.get_width(), "cursor column {}", caret.get_position().x);
}
