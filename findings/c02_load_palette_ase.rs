// C02 finding: Palette::load_palette(&PaletteFormat::Ase, bytes) is `todo!()`: it panics for every input.
#[test]
fn zz_demo_c02_load_palette_ase_returns_an_error() {
    let r = std::panic::catch_unwind(|| crate::Palette::load_palette(&crate::PaletteFormat::Ase, b"ASEF\x00\x01\x00\x00").is_ok());
    assert!(r.is_ok(), "DEMO extracting an ASE palette panicked");
}
