// Demonstration (C14): when a file is loaded, the decoded sixel images become image layers by popping them off the END of the
// image list, so the layers are stacked in reverse arrival order: the oldest picture ends up on top of the newer ones it overlaps,
// the opposite of what the terminal shows for the same byte stream.
#[test]
fn zz_demo_c14_loaded_sixels_keep_arrival_order() {
    use crate::{Buffer, Role, TextPane};
    // three small pictures that overlap each other only partly (none covers another), sent to (0,0), (2,0) and (3,1)
    let pic = "\x1bPq#1;2;100;0;0#1!30~-!30~-\x1b\\";
    let text = format!("\x1b[1;1H{pic}\x1b[1;3H{pic}\x1b[2;4H{pic}");
    let buf = Buffer::from_bytes(std::path::Path::new("pictures.ans"), true, text.as_bytes()).unwrap();
    let offsets: Vec<(i32, i32)> = buf.layers.iter().filter(|l| matches!(l.role, Role::Image)).map(|l| (l.get_offset().x, l.get_offset().y)).collect();
    assert_eq!(offsets.len(), 3, "DEMO three image layers");
    assert_eq!(offsets, vec![(0, 0), (2, 0), (3, 1)], "DEMO image layers in arrival order (later layers are drawn over earlier ones)");
    let _ = buf.get_width();
}
