// Demonstration (C01): CUD with a parameter at the saturation limit. parse_next_number saturates at i32::MAX - 48,
// so after 60 line feeds (cursor row 60) `ESC [ 9999999999 B` computed `self.pos.y += num` with y = 60,
// num = 2147483599 -> "attempt to add with overflow" (debug profile, the profile the test suite runs in).
// Caret::up/left/right already used saturating arithmetic.
#[test]
fn c01_caret_down_overflow() {
    use crate::{ansi, Buffer, BufferParser, Caret};
    let mut buf = Buffer::new((80, 25));
    buf.is_terminal_buffer = true;
    let mut caret = Caret::default();
    let mut p = ansi::Parser::default();
    let mut input = vec![b'\n'; 60];
    input.extend_from_slice(b"\x1b[9999999999B");
    for b in &input {
        let _ = p.print_char(&mut buf, 0, &mut caret, *b as char);
    }
}
