// C05 finding: Artworx::load_buffer starts from Buffer::new((80, 25)) whose layer already holds 25 rows; for a picture
// lower than 25 rows those rows survive crop_loaded_file and the picture comes back 25 rows high.
use crate::{AttributedChar, Buffer, SaveOptions, TextAttribute, TextPane};

#[test]
fn zz_demo_adf_height_roundtrip() {
    for h in [10, 1, 24, 25, 30] {
        let mut buffer = Buffer::new((80, h));
        buffer.ice_mode = crate::IceMode::Ice;
        for y in 0..h {
            for x in 0..80 {
                buffer.layers[0].set_char((x, y), AttributedChar::new('A', TextAttribute::default()));
            }
        }
        let mut opt = SaveOptions::default();
        opt.lossles_output = true;
        opt.save_sauce = false;
        let bytes = buffer.to_bytes("adf", &opt).unwrap();
        let b2 = Buffer::from_bytes(std::path::Path::new("t.adf"), true, &bytes).unwrap();
        assert_eq!((b2.get_width(), b2.get_height()), (80, h), "DEMO saved 80x{h}");
    }
}
