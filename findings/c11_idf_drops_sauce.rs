// C11 finding: the iCE Draw loader ignores the SAUCE record that Buffer::from_bytes extracted for it, so an .idf file saved
// with SAUCE comes back without title, author, group and comments.
use crate::{Buffer, SaveOptions, SauceData, SauceString, TextPane};

#[test]
fn zz_demo_c11_idf_keeps_sauce_metadata() {
    let mut buffer = Buffer::new((80, 2));
    buffer.ice_mode = crate::IceMode::Ice;
    let mut sauce = SauceData::default();
    sauce.title = SauceString::from("Title");
    sauce.author = SauceString::from("Author");
    sauce.group = SauceString::from("Group");
    sauce.buffer_size = buffer.get_size();
    sauce.use_ice = true;
    buffer.set_sauce(Some(sauce), false);
    let mut opt = SaveOptions::default();
    opt.save_sauce = true;
    let bytes = buffer.to_bytes("idf", &opt).unwrap();
    let loaded = Buffer::from_bytes(std::path::Path::new("t.idf"), true, &bytes).unwrap();
    let s = loaded.get_sauce().as_ref().expect("DEMO the SAUCE record of an .idf file is dropped on load");
    assert_eq!(s.title.to_string(), "Title", "DEMO title");
    assert_eq!(s.author.to_string(), "Author", "DEMO author");
    assert_eq!(s.group.to_string(), "Group", "DEMO group");
}
