// Demonstration (C03 / C02): fonts.rs glyphs_from_u8_data
//  (a) a PSF1 header with character height 0 (`36 04 00 00` + any data) never consumed its data: endless loop;
//  (b) raw font data whose length is not a multiple of the glyph height sliced past the end and panicked
//      (XBin font block via BitFont::create_8 with 4095 bytes for height 16).
#[test]
fn c03_c02_glyphs_from_u8_data() {
    use crate::BitFont;
    let (tx, rx) = std::sync::mpsc::channel();
    std::thread::spawn(move || {
        let r = BitFont::from_bytes("x", &[0x36, 0x04, 0x00, 0x00, 1, 2, 3]);
        let _ = tx.send(r.is_ok());
    });
    assert!(rx.recv_timeout(std::time::Duration::from_secs(5)).is_ok(), "PSF1 with glyph height 0 did not return within 5 s");
    let f = BitFont::create_8("", 8, 16, &vec![0u8; 4095]);
    assert!(f.glyphs.len() <= 256);
}
