// C03 finding: a 32-byte PSF2 header with character size 0 passes the length check for every glyph count
// (length * 0 + headersize == data.len()), and BitFont::calculate_checksum then loops `length` = 2^31-1 times.
// The same bytes fit, base64 encoded, into a 62-byte CTerm font DCS.
use crate::BitFont;
use std::sync::mpsc;
use std::time::Duration;

#[test]
fn zz_demo_psf2_zero_charsize_is_rejected_quickly() {
    let mut data = vec![0x72u8, 0xb5, 0x4a, 0x86];     // magic
    data.extend(0u32.to_le_bytes());                    // version
    data.extend(32u32.to_le_bytes());                   // header size
    data.extend(0u32.to_le_bytes());                    // flags
    data.extend(0x7fff_ffffu32.to_le_bytes());          // glyph count
    data.extend(0u32.to_le_bytes());                    // bytes per glyph
    data.extend(16u32.to_le_bytes());                   // height
    data.extend(8u32.to_le_bytes());                    // width
    assert_eq!(data.len(), 32);
    let (tx, rx) = mpsc::channel();
    std::thread::spawn(move || {
        let r = BitFont::from_bytes("x", &data);
        let _ = tx.send(r.is_ok());
    });
    match rx.recv_timeout(Duration::from_secs(5)) {
        Ok(_) => {}
        Err(_) => panic!("DEMO a 32-byte font file keeps the engine busy for more than 5 seconds"),
    }
}
