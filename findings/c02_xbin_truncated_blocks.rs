// C02 finding: XBin::load_buffer sliced the palette and font blocks out of the file without checking that the file is
// long enough, so a header announcing a palette or a font followed by too few bytes panicked (slice index out of range).
use crate::Buffer;

fn xbin(flags: u8, data: &[u8]) -> Vec<u8> {
    let mut v = b"XBIN\x1A".to_vec();
    v.extend_from_slice(&[4, 0, 2, 0, 16, flags]);
    v.extend_from_slice(data);
    v
}

#[test]
fn zz_demo_truncated_palette_or_font_does_not_panic() {
    for (flags, n) in [(0b0001u8, 10usize), (0b0010, 100), (0b1_0010, 4096 + 17), (0b0011, 48 + 4095)] {
        let bytes = xbin(flags, &vec![0u8; n]);
        let r = std::panic::catch_unwind(|| Buffer::from_bytes(std::path::Path::new("t.xb"), true, &bytes).is_ok());
        assert!(r.is_ok(), "DEMO loader panicked: flags {flags:#b}, {n} bytes after the header");
    }
}
