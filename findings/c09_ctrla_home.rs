// Demonstration (C09): Ctrl-A "home" (^A ') set the cursor to (0,0) in buffer coordinates; with scrollback present
// (40 line feeds on an 80x25 screen, first visible row 16) that is above the visible screen.
#[test]
fn c09_ctrla_home() {
    use crate::{ctrla, Buffer, BufferParser, Caret};
    let mut buf = Buffer::new((80, 25));
    buf.is_terminal_buffer = true;
    let mut caret = Caret::default();
    let mut p = ctrla::Parser::default();
    let mut input = vec![b'\n'; 40];
    input.extend_from_slice(&[1, b'\'']);
    for b in &input {
        let _ = p.print_char(&mut buf, 0, &mut caret, *b as char);
    }
    let first = buf.get_first_visible_line();
    let y = caret.get_position().y;
    assert!(first <= y && y < first + buf.terminal_state.get_height(), "cursor row {y}, visible rows start at {first}");
}
