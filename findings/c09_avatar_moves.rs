// Demonstration (C09): Avatar cursor commands assigned the cursor without clamping.
//  ^V ^H <col 200> <row 10> put the cursor at column 200 of an 80-column screen; with 40 rows of scrollback ^V ^C (up) on the
//  first visible row moved the cursor above the visible screen.
#[test]
fn c09_avatar_moves() {
    use crate::{avatar, Buffer, BufferParser, Caret};
    let mut buf = Buffer::new((80, 25));
    buf.is_terminal_buffer = true;
    let mut caret = Caret::default();
    let mut p = avatar::Parser::default();
    for b in [0x16u8, 0x08, 200, 10] {
        let _ = p.print_char(&mut buf, 0, &mut caret, b as char);
    }
    let pos = caret.get_position();
    assert!(pos.x < buf.terminal_state.get_width(), "cursor column {} on an 80 column screen", pos.x);
}
