// C02 finding: TundraDraw::load_buffer read the operands of a position / colour command without checking that the
// file still holds them, so a file that ends inside a command panicked (index / slice out of range); a jump to a
// negative row passed the range test and left the layer with a negative height.
use crate::{Buffer, TextPane};

fn tnd(tail: &[u8]) -> Vec<u8> {
    let mut v = vec![24u8];
    v.extend_from_slice(b"TUNDRA24");
    v.extend_from_slice(tail);
    v
}

#[test]
fn zz_demo_truncated_tundra_does_not_panic() {
    for tail in [&[1u8][..], &[1, 0, 0, 0, 1, 0], &[2], &[2, b'A', 0, 1], &[4, b'A'], &[6, b'A', 0, 1, 2, 3, 0, 1]] {
        let bytes = tnd(tail);
        let r = std::panic::catch_unwind(|| Buffer::from_bytes(std::path::Path::new("t.tnd"), true, &bytes).is_ok());
        assert!(r.is_ok(), "DEMO loader panicked on {tail:02X?}");
    }
    // jump to row 0x80000000 (negative as i32)
    let bytes = tnd(&[1, 0x80, 0, 0, 0, 0, 0, 0, 0, b'A']);
    if let Ok(buf) = Buffer::from_bytes(std::path::Path::new("t.tnd"), true, &bytes) {
        assert!(buf.get_height() >= 0 && buf.layers[0].get_height() >= 0, "DEMO negative height {}", buf.get_height());
    }
}
