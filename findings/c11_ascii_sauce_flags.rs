// C11 finding: the SAUCE reader decodes the letter-spacing and aspect-ratio flags for the ASCII file type (they are ANSiFlags of the
// Character data type), the writer only writes them for the ANSI type: an .asc file saved with both flags set loads with both cleared.
use crate::{Buffer, SaveOptions, SauceData, TextPane};

#[test]
fn zz_demo_c11_asc_keeps_letter_spacing_and_aspect_ratio() {
    let mut buffer = Buffer::new((80, 2));
    let mut sauce = SauceData::default();
    sauce.buffer_size = buffer.get_size();
    sauce.use_letter_spacing = true;
    sauce.use_aspect_ratio = true;
    buffer.set_sauce(Some(sauce), false);
    let mut opt = SaveOptions::default();
    opt.save_sauce = true;
    let bytes = buffer.to_bytes("asc", &opt).unwrap();
    let loaded = Buffer::from_bytes(std::path::Path::new("t.asc"), true, &bytes).unwrap();
    let s = loaded.get_sauce().as_ref().expect("sauce");
    assert!(s.use_letter_spacing, "DEMO letter spacing flag lost in an .asc file");
    assert!(s.use_aspect_ratio, "DEMO aspect ratio flag lost in an .asc file");
}
