// Demonstration (C01): CSI Pn SP @ (scroll left) / CSI Pn SP A (scroll right) on a screen whose rows are not yet
// allocated indexed `layer.lines[i]` past the end and panicked (src/parsers/mod.rs Buffer::scroll_left/right).
// Run inside the crate as a test:  the pre-fix tree panics with "index out of bounds", the fixed tree passes.
#[test]
fn c01_scroll_left_right_on_fresh_screen() {
    use crate::{ansi, Buffer, BufferParser, Caret};
    for seq in [&b"\x1b[1 @"[..], &b"\x1b[1 A"[..]] {
        let mut buf = Buffer::new((80, 25));
        buf.is_terminal_buffer = true;
        buf.layers[0].lines.clear();
        let mut caret = Caret::default();
        let mut p = ansi::Parser::default();
        for b in seq {
            let _ = p.print_char(&mut buf, 0, &mut caret, *b as char);
        }
    }
}
