// C01 finding: OSC 4 (palette) matched `(\d+)?;rgb:RR/GG/BB` and then unwrapped the optional index group, so
// `ESC ] 4 ; ; rgb:12/34/56 BEL` (no index in front of the second colour spec) panicked.
use crate::{ansi, Buffer, BufferParser, Caret};

#[test]
fn zz_demo_osc4_without_index_does_not_panic() {
    for input in [&b"\x1b]4;;rgb:12/34/56\x07"[..], b"\x1b]4;1;rgb:00/00/00;;rgb:12/34/56\x1b\\"] {
        let input = input.to_vec();
        let r = std::panic::catch_unwind(move || {
            let mut parser = ansi::Parser::default();
            let mut buf = Buffer::create((80, 25));
            buf.is_terminal_buffer = true;
            let mut caret = Caret::default();
            for b in input {
                let _ = parser.print_char(&mut buf, 0, &mut caret, b as char);
            }
        });
        assert!(r.is_ok(), "DEMO OSC 4 without a colour index panicked");
    }
}
