// Demonstration (C03): numbers inside a sixel payload drove allocation and loop counts directly:
//  `"1;1;2000000000;2000000000` (raster attributes) tried to allocate 2e9 rows of 8e9 bytes;
//  `!2000000000~` (repeat) looped 2e9 times; a colour percentage 9999999999 overflowed `* 255`.
#[test]
fn c03_sixel_unbounded() {
    use crate::{Position, Sixel};
    for payload in ["#1;2;9999999999;0;0~", "!2000000000~", "\"1;1;2000000000;2000000000~"] {
        let payload = payload.to_string();
        let (tx, rx) = std::sync::mpsc::channel();
        std::thread::spawn(move || {
            let r = std::panic::catch_unwind(|| Sixel::parse_from(Position::default(), 1, 1, [0, 0, 0, 0], &payload).is_ok());
            let _ = tx.send(r.is_ok());
        });
        match rx.recv_timeout(std::time::Duration::from_secs(5)) {
            Ok(no_panic) => assert!(no_panic, "decoder panicked"),
            Err(_) => panic!("a 30-byte sixel payload ran for more than 5 s"),
        }
    }
}
