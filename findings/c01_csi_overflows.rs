// Demonstration (C01): CSI cursor-positioning arms added the numeric parameter to the first visible row with `+`.
// After 60 line feeds (first visible row 36) `ESC [ 9999999999 d` (VPA), `e` (VPR), `E` (CNL), `H` (CUP) and, for the
// column, `a` (HPR) overflowed i32 (debug profile). `ESC [ = 0 m` (SSM with one parameter) indexed parsed_numbers[1].
#[test]
fn c01_csi_overflows() {
    use crate::{ansi, Buffer, BufferParser, Caret};
    for seq in [&b"\x1b[9999999999d"[..], b"\x1b[9999999999e", b"\x1b[9999999999E", b"\x1b[9999999999;1H", b"abc\x1b[9999999999a", b"\x1b[=0m"] {
        let mut buf = Buffer::new((80, 25));
        buf.is_terminal_buffer = true;
        let mut caret = Caret::default();
        let mut p = ansi::Parser::default();
        let mut input = vec![b'\n'; 60];
        input.extend_from_slice(seq);
        for b in &input {
            let _ = p.print_char(&mut buf, 0, &mut caret, *b as char);
        }
    }
}
