// C05 finding: with compression on, the iCE Draw writer emits a repeat header for every character 0x01 and then, for the cell
// (0x01, attribute 0) with count 1, a second "fake repeat" header. The reader takes the second header as the repeated
// cell of the first, so one cell is written as two and every following cell is shifted.
use crate::{AttributedChar, Buffer, SaveOptions, TextAttribute, TextPane};

#[test]
fn zz_demo_idf_cell_01_00_roundtrip() {
    let mut buffer = Buffer::new((80, 2));
    buffer.ice_mode = crate::IceMode::Ice;
    for y in 0..2 {
        for x in 0..80 {
            let ch = if (x + y) % 2 == 0 { 'A' } else { 'B' };
            buffer.layers[0].set_char((x, y), AttributedChar::new(ch, TextAttribute::from_u8(0x17, crate::IceMode::Ice)));
        }
    }
    buffer.layers[0].set_char((3, 0), AttributedChar::new('\x01', TextAttribute::from_u8(0, crate::IceMode::Ice)));
    for x in 4..10 {
        // a run after the (1, 0) cell: the next record is a repeat record
        buffer.layers[0].set_char((x, 0), AttributedChar::new('C', TextAttribute::from_u8(0x17, crate::IceMode::Ice)));
    }
    let mut opt = SaveOptions::default();
    opt.lossles_output = true;
    opt.save_sauce = false;
    for compress in [false, true] {
        opt.compress = compress;
        let bytes = buffer.to_bytes("idf", &opt).unwrap();
        let b2 = Buffer::from_bytes(std::path::Path::new("t.idf"), true, &bytes).unwrap();
        for x in 0..80 {
            assert_eq!(b2.get_char((x, 0)).ch, buffer.get_char((x, 0)).ch, "DEMO compress={compress}: cell ({x},0)");
        }
    }
}
