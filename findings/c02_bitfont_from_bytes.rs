// Demonstration (C02): BitFont::from_bytes on short or inconsistent input.
//  empty input -> data[0..2] out of range; a bare PSF2 magic -> data[4..8] out of range;
//  PSF2 header with length 0x10000 and charsize 0x10000 -> `length * charsize` overflow (debug profile).
#[test]
fn c02_bitfont_from_bytes() {
    use crate::BitFont;
    let _ = BitFont::from_bytes("a", &[]);
    let _ = BitFont::from_bytes("b", &[0x72, 0xb5, 0x4a, 0x86]);
    let mut psf2 = vec![0x72, 0xb5, 0x4a, 0x86, 0, 0, 0, 0, 32, 0, 0, 0, 0, 0, 0, 0];
    psf2.extend_from_slice(&0x10000u32.to_le_bytes());
    psf2.extend_from_slice(&0x10000u32.to_le_bytes());
    psf2.extend_from_slice(&16u32.to_le_bytes());
    psf2.extend_from_slice(&8u32.to_le_bytes());
    let _ = BitFont::from_bytes("c", &psf2);
}
