// C05 finding: the Tundra writer starts from "black on black" and therefore emits no foreground command for leading cells with a
// black foreground, but the reader starts from foreground index 7. The 24-bit palette of the loaded file is built on the fly, so
// as soon as it holds eight colours, index 7 is whatever colour happened to be inserted eighth: the leading black text changes colour.
use crate::{AttributedChar, Buffer, SaveOptions, TextAttribute, TextPane};

#[test]
fn zz_demo_tundra_leading_black_foreground_stays_black() {
    let mut buffer = Buffer::new((80, 1));
    buffer.ice_mode = crate::IceMode::Ice;
    // black 'A' on red, then 'B' in the colours 1..=8 on red, grey text after that
    buffer.layers[0].set_char((0, 0), AttributedChar::new('A', TextAttribute::from_u8(0x40, crate::IceMode::Ice)));
    for x in 1..80 {
        let fg = if x <= 8 { x as u8 } else { 7 };
        buffer.layers[0].set_char((x, 0), AttributedChar::new('B', TextAttribute::from_u8(0x40 | fg, crate::IceMode::Ice)));
    }
    let mut opt = SaveOptions::default();
    opt.lossles_output = true;
    opt.save_sauce = false;
    let bytes = buffer.to_bytes("tnd", &opt).unwrap();
    let b2 = Buffer::from_bytes(std::path::Path::new("t.tnd"), true, &bytes).unwrap();
    for x in 0..80 {
        let a = buffer.get_char((x, 0));
        let b = b2.get_char((x, 0));
        assert_eq!(a.ch, b.ch, "DEMO character at column {x}");
        assert_eq!(buffer.palette.get_rgb(a.attribute.get_foreground()), b2.palette.get_rgb(b.attribute.get_foreground()), "DEMO foreground at column {x}");
        assert_eq!(buffer.palette.get_rgb(a.attribute.get_background()), b2.palette.get_rgb(b.attribute.get_background()), "DEMO background at column {x}");
    }
}
