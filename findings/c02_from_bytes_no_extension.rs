// C02 finding: Buffer::from_bytes unwraps Path::extension(); a file name without a dot ("README") panics whatever the bytes are.
#[test]
fn zz_demo_c02_file_without_extension_loads_or_errors() {
    let r = std::panic::catch_unwind(|| crate::Buffer::from_bytes(std::path::Path::new("README"), true, b"hello").is_ok());
    assert!(r.is_ok(), "DEMO loading a file without extension panicked");
}
