// Demonstration (C09): form feed with scrollback present. After 40 line feeds on an 80x25 terminal buffer the buffer
// is 41 rows high (first visible row 16); FF cleared the rows and put the cursor at row 0 but left the buffer height,
// so the cursor was above the visible screen.
#[test]
fn c09_ff_scrollback() {
    use crate::{ansi, Buffer, BufferParser, Caret, TextPane};
    let mut buf = Buffer::new((80, 25));
    buf.is_terminal_buffer = true;
    let mut caret = Caret::default();
    let mut p = ansi::Parser::default();
    let mut input = vec![b'\n'; 40];
    input.push(0x0C);
    for b in &input {
        let _ = p.print_char(&mut buf, 0, &mut caret, *b as char);
    }
    let first = buf.get_first_visible_line();
    let y = caret.get_position().y;
    println!("DEMO first visible {first} cursor row {y} height {}", buf.get_height());
    assert!(first <= y && y < first + buf.terminal_state.get_height(), "cursor row {y} outside visible rows {first}..");
}
