// C05 finding: the Tundra writer sends the characters 1..=6 (which collide with the command bytes) behind a "fake" foreground
// command that repeats the colour of the *previous* cell and skips the colour comparison, so such a cell with its own colours
// (here: yellow on blue after grey on black) comes back with the colours of the cell before it.
use crate::{AttributedChar, Buffer, SaveOptions, TextAttribute, TextPane};

#[test]
fn zz_demo_tundra_chars_1_to_6_keep_their_colours() {
    let mut buffer = Buffer::new((80, 1));
    buffer.ice_mode = crate::IceMode::Ice;
    for x in 0..80 {
        buffer.layers[0].set_char((x, 0), AttributedChar::new('A', TextAttribute::from_u8(0x07, crate::IceMode::Ice)));
    }
    buffer.layers[0].set_char((5, 0), AttributedChar::new('\x03', TextAttribute::from_u8(0x1E, crate::IceMode::Ice)));
    let mut opt = SaveOptions::default();
    opt.lossles_output = true;
    opt.save_sauce = false;
    let bytes = buffer.to_bytes("tnd", &opt).unwrap();
    let b2 = Buffer::from_bytes(std::path::Path::new("t.tnd"), true, &bytes).unwrap();
    let a = buffer.get_char((5, 0));
    let b = b2.get_char((5, 0));
    assert_eq!(a.ch, b.ch, "DEMO character");
    assert_eq!(buffer.palette.get_rgb(a.attribute.get_foreground()), b2.palette.get_rgb(b.attribute.get_foreground()), "DEMO foreground of the heart at column 5");
    assert_eq!(buffer.palette.get_rgb(a.attribute.get_background()), b2.palette.get_rgb(b.attribute.get_background()), "DEMO background of the heart at column 5");
}
