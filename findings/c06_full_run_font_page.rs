// C06 finding: inside a Compression::Full run the compressor ended the run on `cur != run_ch`, but
// AttributedChar/TextAttribute equality ignores the font page, so in 512-character mode a cell that differs from
// the run's first cell only in its font page was absorbed into the run and came back with the wrong font page.
use crate::{AttributedChar, BitFont, Buffer, SaveOptions, TextAttribute, TextPane};

fn buffer_with(cells: &[(char, usize)]) -> Buffer {
    let mut buffer = Buffer::new((8, 2));
    buffer.ice_mode = crate::IceMode::Ice;
    buffer.set_font(1, BitFont::from_ansi_font_page(42).unwrap());
    for y in 0..2 {
        for x in 0..8 {
            buffer.layers[0].set_char((x, y), AttributedChar::new(' ', TextAttribute::default()));
        }
    }
    for (x, (ch, page)) in cells.iter().enumerate() {
        let mut attr = TextAttribute::from_u8(0b0001_0111, crate::IceMode::Ice);
        attr.set_font_page(*page);
        buffer.layers[0].set_char((x as i32, 0), AttributedChar::new(*ch, attr));
    }
    buffer
}

fn load(buffer: &Buffer, compress: bool) -> Buffer {
    let mut opt = SaveOptions::default();
    opt.compress = compress;
    opt.lossles_output = true;
    opt.save_sauce = false;
    let bytes = buffer.to_bytes("xb", &opt).unwrap();
    Buffer::from_bytes(std::path::Path::new("t.xb"), true, &bytes).unwrap()
}

#[test]
fn zz_demo_full_run_keeps_font_page() {
    for cells in [vec![('A', 0), ('A', 1)], vec![('A', 0), ('A', 0), ('A', 1), ('A', 1)], vec![('A', 1), ('A', 0), ('B', 0)]] {
        let buffer = buffer_with(&cells);
        let plain = load(&buffer, false);
        let packed = load(&buffer, true);
        for x in 0..8 {
            let a = plain.get_char((x, 0));
            let b = packed.get_char((x, 0));
            assert_eq!((a.ch, a.attribute.get_font_page()), (b.ch, b.attribute.get_font_page()), "DEMO cell {x} of {cells:?}: uncompressed vs compressed");
        }
    }
}
