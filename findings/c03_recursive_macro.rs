// C03 finding: a macro may contain the sequence that invokes a macro. A macro that invokes itself recursed until the
// stack was exhausted (the process aborts); a chain of macros each invoking the next one several times expanded
// exponentially. Both from a definition of a few dozen bytes.
use crate::{ansi, Buffer, BufferParser, Caret};
use std::sync::mpsc;
use std::time::Duration;

fn run(input: &'static [u8]) -> bool {
    let (tx, rx) = mpsc::channel();
    // a generous stack so that the clean-tree failure is the time limit, not an abort of the whole test binary
    let _ = std::thread::Builder::new().stack_size(1 << 30).spawn(move || {
        let mut parser = ansi::Parser::default();
        let mut buf = Buffer::create((80, 25));
        buf.is_terminal_buffer = true;
        let mut caret = Caret::default();
        for b in input {
            let _ = parser.print_char(&mut buf, 0, &mut caret, *b as char);
        }
        let _ = tx.send(());
    });
    rx.recv_timeout(Duration::from_secs(5)).is_ok()
}

#[test]
fn zz_demo_recursive_macro_terminates() {
    // macro 1 = "A" followed by "invoke macro 1" (hex-encoded so that the definition itself does not invoke anything)
    assert!(run(b"\x1bP1;0;1!z411B5B312A7A\x1b\\\x1b[1*z"), "DEMO a self-invoking macro did not finish within 5 s");
    // macros 1..=12 each invoke the next one 8 times (8^12 expansions of the innermost "A")
    let mut v: Vec<u8> = Vec::new();
    for m in 1..=12u8 {
        v.extend_from_slice(format!("\x1bP{};0;1!z", m).as_bytes());
        if m == 12 {
            v.extend_from_slice(b"41");
        } else {
            let inv = format!("\x1b[{}*z", m + 1);
            for _ in 0..8 {
                for b in inv.bytes() {
                    v.extend_from_slice(format!("{:02X}", b).as_bytes());
                }
            }
        }
        v.extend_from_slice(b"\x1b\\");
    }
    v.extend_from_slice(b"\x1b[1*z");
    let input: &'static [u8] = Box::leak(v.into_boxed_slice());
    assert!(run(input), "DEMO a chain of macros expanding 8^12 times did not finish within 5 s");
}
