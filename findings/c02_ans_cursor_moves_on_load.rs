// C02 / C03 finding: while a file is loaded the buffer is not a terminal buffer, and limit_caret_pos left the cursor row alone.
// Cursor-up at the top made the row negative (insert line then asserts "line out of range"); cursor-down by 2^31-2 followed by a
// line feed asked for 2^31 rows. Both from files of under 20 bytes.
#[test]
fn zz_demo_c02_ans_cursor_up_then_insert_line() {
    let r = std::panic::catch_unwind(|| crate::Buffer::from_bytes(std::path::Path::new("f.ans"), true, b"\x1b[A\x1b[L").is_ok());
    assert!(r.is_ok(), "DEMO loading ESC[A ESC[L as .ans panicked");
}

#[test]
fn zz_demo_c03_ans_cursor_down_is_bounded() {
    // rows are allocated up to the cursor: 2 million rows of 80 cells are about 4 GB and several seconds
    let t = std::time::Instant::now();
    let _ = crate::Buffer::from_bytes(std::path::Path::new("f.ans"), true, b"\x1b[2000000B\n");
    assert!(t.elapsed().as_millis() < 1500, "DEMO a 13 byte file kept the loader busy for {} ms", t.elapsed().as_millis());
}
