// C17 finding (recorded, not repaired): BitFont::from_bytes sniffs its input for PSF magic numbers. Raw 8-bit glyph data - what
// convert_to_u8_data produces and the CTerm font DCS carries - has no header, so a font whose first glyph rows happen to be
// 36 04 .. is read as a PSF1 file: 4 bytes are taken as header and every glyph comes back shifted.
use crate::BitFont;

#[test]
fn zz_demo_c17_raw_font_with_psf1_magic_round_trips() {
    let mut data = vec![0u8; 4096];
    for (i, b) in data.iter_mut().enumerate() {
        *b = (i * 7 + 3) as u8;
    }
    data[0] = 0x36;
    data[1] = 0x04;
    data[2] = 0x00;
    data[3] = 0x10;
    let font = BitFont::create_8("demo", 8, 16, &data);
    let raw = font.convert_to_u8_data();
    assert_eq!(raw, data, "DEMO convert_to_u8_data returns the glyph rows");
    let back = BitFont::from_bytes("back", &raw).unwrap();
    assert_eq!(back.get_glyph('A').unwrap().data, font.get_glyph('A').unwrap().data, "DEMO glyph 'A' after raw round trip through from_bytes");
}
