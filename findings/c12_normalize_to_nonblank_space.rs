// C12 finding: with normalize_whitespaces the optimiser replaces every blank glyph by ' ' as soon as the font *has*
// a glyph for ' ' (map.contains_key(&' ')), without looking at its shape. In a font whose glyph 32 is not blank
// (custom XBin / PSF fonts) the optimised buffer renders differently from the original.
use crate::{AttributedChar, Buffer, ColorOptimizer, Rectangle, SaveOptions, TextAttribute, TextPane};

#[test]
fn zz_demo_normalize_keeps_picture_with_custom_font() {
    let mut buffer = Buffer::new((4, 1));
    let mut font = buffer.get_font(0).unwrap().clone();
    let a = font.get_glyph('A').unwrap().clone();
    *font.get_glyph_mut(' ').unwrap() = a; // a font in which code 32 draws something
    buffer.set_font(0, font);
    for x in 0..4 {
        buffer.layers[0].set_char((x, 0), AttributedChar::new('\0', TextAttribute::default())); // code 0 is blank
    }
    let mut opt = SaveOptions::default();
    opt.normalize_whitespaces = true;
    let optimized = ColorOptimizer::new(&buffer, &opt).optimize(&buffer);
    let rect = Rectangle::from(0, 0, buffer.get_width(), buffer.get_height());
    let (s1, p1) = buffer.render_to_rgba(rect);
    let (s2, p2) = optimized.render_to_rgba(rect);
    assert_eq!(s1, s2);
    assert!(p1 == p2, "DEMO the optimised buffer renders differently from the original");
}
