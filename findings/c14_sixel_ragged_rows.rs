// Demonstration (C14): a sixel payload whose second band is wider than the first (`~-~~~`): rows grew independently and the
// width was taken from row 0, so picture_data.len() != width * height * 4.
#[test]
fn c14_sixel_ragged_rows() {
    use crate::{Position, Sixel};
    let s = Sixel::parse_from(Position::default(), 1, 1, [0, 0, 0, 0], "~-~~~").unwrap();
    let (w, h) = (s.get_width() as usize, s.get_height() as usize);
    assert_eq!(s.picture_data.len(), w * h * 4, "width {w} height {h}");
}
