// Demonstration (C10): input-derived numbers were turned into `char` with char::from_u32_unchecked.
//  (a) DECFRA `ESC [ 55296 ; 1 ; 1 ; 2 ; 2 $ x` stored the surrogate U+D800 in four cells;
//  (b) a clipboard cell record with the 16-bit character value 0xD800 did the same in Layer::from_clipboard_data.
// A `char` outside the scalar-value range is undefined behaviour; the test observes it through `as u32`.
#[test]
fn c10_unchecked_conversions() {
    use crate::{ansi, Buffer, BufferParser, Caret, Layer, TextPane};
    let scalar = |v: u32| v <= 0xD7FF || (0xE000..=0x10FFFF).contains(&v);
    let mut buf = Buffer::new((80, 25));
    buf.is_terminal_buffer = true;
    let mut caret = Caret::default();
    let mut p = ansi::Parser::default();
    for b in b"\x1b[55296;1;1;2;2$x" {
        let _ = p.print_char(&mut buf, 0, &mut caret, *b as char);
    }
    let v = std::hint::black_box(buf.get_char((0, 0)).ch) as u32;
    assert!(scalar(v), "fill character {v:#x} is not a scalar value");

    let mut clip = vec![0u8];
    clip.extend_from_slice(&0i32.to_le_bytes());
    clip.extend_from_slice(&0i32.to_le_bytes());
    clip.extend_from_slice(&1u32.to_le_bytes());
    clip.extend_from_slice(&1u32.to_le_bytes());
    clip.extend_from_slice(&0xD800u16.to_le_bytes());
    clip.extend_from_slice(&[0u8; 12]);
    let layer = Layer::from_clipboard_data(&clip).unwrap();
    let v = std::hint::black_box(layer.get_char((0, 0)).ch) as u32;
    assert!(scalar(v), "clipboard character {v:#x} is not a scalar value");
}
