// C03 finding: the repeat count of a hex-encoded macro group (`!<count>;<hex pairs>;`) is part of the input, and the
// group was appended `count` times without any bound: a 30-byte DCS string allocated gigabytes / ran for minutes.
use crate::{ansi, Buffer, BufferParser, Caret};
use std::sync::mpsc;
use std::time::Duration;

#[test]
fn zz_demo_hex_macro_repeat_is_bounded() {
    let (tx, rx) = mpsc::channel();
    std::thread::spawn(move || {
        let mut parser = ansi::Parser::default();
        let mut buf = Buffer::create((80, 25));
        buf.is_terminal_buffer = true;
        let mut caret = Caret::default();
        for b in b"\x1bP1;0;1!z!400000000;4142;\x1b\\" {
            let _ = parser.print_char(&mut buf, 0, &mut caret, *b as char);
        }
        let _ = tx.send(());
    });
    assert!(rx.recv_timeout(Duration::from_secs(3)).is_ok(), "DEMO a 30-byte macro definition did not finish within 3 s");
}
