// C02 finding: TheDrawFont::from_tdf_bytes checked the length of the first font header only. A bundle whose second
// font header is cut off, a glyph offset pointing at the last byte, or a colour glyph ending on a character byte
// indexed past the end of the file and panicked.
use crate::TheDrawFont;

fn header() -> Vec<u8> {
    let mut v = vec![19u8];
    v.extend_from_slice(b"TheDraw FONTS file");
    v.push(0x1A);
    v
}
fn font(font_type: u8, block: &[u8], first_offset: u16) -> Vec<u8> {
    let mut v = vec![0x55, 0xAA, 0x00, 0xFF, 4];
    v.extend_from_slice(b"TEST\0\0\0\0\0\0\0\0");
    v.extend_from_slice(&[0, 0, 0, 0, font_type, 1]);
    v.extend_from_slice(&(block.len() as u16).to_le_bytes());
    v.extend_from_slice(&first_offset.to_le_bytes());
    for _ in 1..94 {
        v.extend_from_slice(&0xFFFFu16.to_le_bytes());
    }
    v.extend_from_slice(block);
    v
}

#[test]
fn zz_demo_truncated_tdf_does_not_panic() {
    let mut cases: Vec<Vec<u8>> = Vec::new();
    // a complete font followed by the first bytes of a second one
    let mut b = header();
    b.extend(font(1, &[1, 1, b'A', 0], 0));
    b.extend_from_slice(&[0x55, 0xAA, 0x00]);
    cases.push(b);
    // glyph offset pointing at the last byte of the file (no room for width / height)
    let mut b = header();
    b.extend(font(1, &[9], 0));
    cases.push(b);
    // colour font whose glyph ends on a character byte
    let mut b = header();
    b.extend(font(2, &[1, 1, b'A'], 0));
    cases.push(b);
    for (i, bytes) in cases.iter().enumerate() {
        let r = std::panic::catch_unwind(|| TheDrawFont::from_tdf_bytes(bytes).is_ok());
        assert!(r.is_ok(), "DEMO from_tdf_bytes panicked on case {i}");
    }
}
