// C05 finding: XBin::load_buffer starts from Buffer::new((80, 25)), whose layer already holds 25 rows; for a picture
// lower than 25 rows those rows survived crop_loaded_file and the picture came back 25 rows high.
use crate::{AttributedChar, Buffer, SaveOptions, TextAttribute, TextPane};

#[test]
fn zz_demo_xbin_height_roundtrip() {
    for (w, h) in [(80, 10), (40, 1), (80, 24), (80, 25), (40, 30)] {
        let mut buffer = Buffer::new((w, h));
        for y in 0..h {
            for x in 0..w {
                buffer.layers[0].set_char((x, y), AttributedChar::new('A', TextAttribute::default()));
            }
        }
        let mut opt = SaveOptions::default();
        opt.lossles_output = true;
        for compress in [false, true] {
            opt.compress = compress;
            let bytes = buffer.to_bytes("xb", &opt).unwrap();
            let b2 = Buffer::from_bytes(std::path::Path::new("t.xb"), true, &bytes).unwrap();
            assert_eq!((b2.get_width(), b2.get_height()), (w, h), "DEMO saved {w}x{h} (compress={compress})");
        }
    }
}
