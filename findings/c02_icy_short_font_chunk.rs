// C02 finding: IcyDraw chunk payloads are indexed without a length check. A valid PNG whose FONT_0 (or LAYER_0) text chunk
// decodes to fewer than 4 bytes, or whose 4-byte length prefix exceeds the payload, panics in read_utf8_encoded_string.
use base64::{engine::general_purpose, Engine};

fn icy_with_chunk(keyword: &str, payload: &[u8]) -> Vec<u8> {
    let mut out = Vec::new();
    {
        let mut enc = png::Encoder::new(&mut out, 1, 1);
        enc.set_color(png::ColorType::Rgba);
        enc.set_depth(png::BitDepth::Eight);
        enc.add_ztxt_chunk(keyword.to_string(), general_purpose::STANDARD.encode(payload)).unwrap();
        enc.add_ztxt_chunk("END".to_string(), String::new()).unwrap();
        let mut w = enc.write_header().unwrap();
        w.write_image_data(&[0, 0, 0, 0]).unwrap();
    }
    out
}

#[test]
fn zz_demo_c02_icy_short_chunks_do_not_panic() {
    for (kw, payload) in [
        ("FONT_0", vec![1u8, 0]),                      // shorter than the length prefix
        ("FONT_0", vec![200, 0, 0, 0, b'a', b'b']),    // prefix says 200 bytes, 2 are there
        ("LAYER_0", vec![9u8, 0, 0, 0]),               // title length 9, no title
    ] {
        let file = icy_with_chunk(kw, &payload);
        let r = std::panic::catch_unwind(|| crate::Buffer::from_bytes(std::path::Path::new("x.icy"), true, &file).is_ok());
        assert!(r.is_ok(), "DEMO loading an .icy file with a short {kw} chunk panicked");
    }
}
