// C17 finding: the TDF writer stores glyph offsets and the size of the glyph block in 16 bits with `as u16`. A colour font with
// 94 glyphs of 30 x 12 cells has a glyph block of 68 996 bytes: offsets and block size wrap around and the file the writer
// produced cannot be read back (or reads back other glyphs).
use crate::{FontGlyph, FontType, Size, TheDrawFont};

#[test]
fn zz_demo_tdf_large_colour_font_round_trips_or_is_refused() {
    let mut font = TheDrawFont::new("BIG", FontType::Color, 1);
    for i in 0..94u8 {
        let mut data = Vec::new();
        for row in 0..12 {
            for col in 0..30 {
                data.push(b'A' + ((i as usize + row + col) % 26) as u8);
                data.push(0x1F);
            }
            if row < 11 {
                data.push(13);
            }
        }
        font.set_glyph((b'!' + i) as char, FontGlyph { size: Size::new(30, 12), data });
    }
    match font.as_tdf_bytes() {
        Err(_) => {} // refusing a font that does not fit the format is fine
        Ok(bytes) => {
            let fonts = TheDrawFont::from_tdf_bytes(&bytes).expect("DEMO the writer's own output must load");
            assert_eq!(fonts.len(), 1);
            // the glyph table is private: compare through the encoder, and the glyph block length through the file size
            assert_eq!(bytes.len(), 20 + 213 + 94 * (2 + 12 * 60 + 11 + 1), "DEMO file size");
            assert_eq!(fonts[0].as_tdf_bytes().unwrap(), bytes, "DEMO re-encoded font differs");
        }
    }
}
