// Demonstration (C03): CSI repeat counts were only saturated at i32::MAX - 48. Each of these 13..16 byte sequences ran for
// far longer than 5 seconds (or allocated without bound) on an 80x25 screen: SU / SD / ICH / DCH / IL / REP / CVT / CBT / SL / SR.
#[test]
fn c03_unclamped_repeats() {
    use crate::{ansi, Buffer, BufferParser, Caret};
    for seq in [&b"\x1b[1;10r\x1b[9999999999S"[..], b"\x1b[9999999999T", b"x\x1b[9999999999P", b"\x1b[9999999999Y", b"\x1b[9999999999Z", b"\x1b[9999999999 @", b"\x1b[9999999999 A"] {
        let seq = seq.to_vec();
        let (tx, rx) = std::sync::mpsc::channel();
        std::thread::spawn(move || {
            let mut buf = Buffer::new((80, 25));
            buf.is_terminal_buffer = true;
            let mut caret = Caret::default();
            let mut p = ansi::Parser::default();
            for b in &seq {
                let _ = p.print_char(&mut buf, 0, &mut caret, *b as char);
            }
            let _ = tx.send(());
        });
        assert!(rx.recv_timeout(std::time::Duration::from_secs(5)).is_ok(), "a control sequence of a few bytes ran for more than 5 s");
    }
}
