// C03 finding: CUU (`CSI Pn A`) subtracted Pn from the row with a saturating subtraction and then scrolled the margin
// region once per row between the new (hugely negative) row and the top margin: with a scrolling region set,
// `ESC[2147483647A` looped about 2^31 times.
use crate::{ansi, Buffer, BufferParser, Caret};
use std::sync::mpsc;
use std::time::Duration;

#[test]
fn zz_demo_cursor_up_is_bounded_by_the_screen() {
    let (tx, rx) = mpsc::channel();
    std::thread::spawn(move || {
        let mut parser = ansi::Parser::default();
        let mut buf = Buffer::create((80, 25));
        buf.is_terminal_buffer = true;
        let mut caret = Caret::default();
        for b in b"\x1b[2;10r\x1b[5;1H\x1b[2147483647A" {
            let _ = parser.print_char(&mut buf, 0, &mut caret, *b as char);
        }
        let _ = tx.send(caret.get_position().y);
    });
    let r = rx.recv_timeout(Duration::from_secs(3));
    assert!(r.is_ok(), "DEMO `ESC[2147483647A` with margins set did not finish within 3 s");
}
