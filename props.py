"""Registry: which units / harnesses / scans decide which property, and the static text of the evidence."""

COMMON_TRUST = [
    "rustc front end, Verus 0.2026.09.13 + Z3 (VX); Kani 0.68 + CBMC 6.11 + SAT back end (KC)",
    "the extractor /verif/vx/extract.py (item locator, normalisation rules N1-N16 / T1-T6 / O1 with argument capture / ARM, BLOCK and LAZY slicing - listed in DESIGN.md 0b.2 and, per firing, in normalisations_fired, contract splicer, line map)",
    "vstd's model of Vec/slice/Seq/Option/array",
    "machine integers are checked: overflow of i32/u32/usize arithmetic is a failed obligation (debug-profile semantics)",
]

PROPS = {}

PROPS["C19"] = dict(
    units=["crc", "fonts"],
    kani_quick=["c19_crc16_table_entry", "c19_crc32_table0_entry", "c19_crc32_tablek_entry",
                "c19_update_crc16_step", "c19_update_crc32_step", "c19_bounded_crc16_len9"],
    kani_thorough=["c19_bounded_oneshot_vs_incremental_len3", "c19_bounded_crc32_len20"],
    kani_bounded={"c19_bounded_oneshot_vs_incremental_len3": "strings of length <= 3 (unwind 5); cross-check only, not counted",
                  "c19_bounded_crc16_len9": "get_crc16 against the incremental update for every string of length <= 9 (unwind 11); bounded stand-in that still decides when a restructured get_crc16 is outside the extractor's reach; not counted as proved",
                  "c19_bounded_crc32_len20": "get_crc32 against the incremental update for every prefix (length 0..=40, symbolic) of ONE fixed 40-byte string (unwind 42): CBMC cannot carry symbolic data through the slicing-by-16 tables (no answer in 30 min); bounded stand-in, not counted as proved"},
    paired_kani={"update_crc16": ["c19_update_crc16_step", "c19_crc16_table_entry"],
                 "update_crc32": ["c19_update_crc32_step", "c19_crc32_table0_entry"],
                 "update_slow": ["c19_crc32_table0_entry", "c19_bounded_oneshot_vs_incremental_len3"],
                 "get_crc16": ["c19_bounded_crc16_len9", "c19_bounded_oneshot_vs_incremental_len3"],
                 "get_crc32": ["c19_bounded_oneshot_vs_incremental_len3", "c19_crc32_tablek_entry", "c19_bounded_crc32_len20"]},
    trusted_base=COMMON_TRUST + [
        "table entry facts are assumed in Verus (external_body proof fns crc16_table_entry, crc32_table0_entry, "
        "crc32_tablek_entry) and each is discharged on the real tables by the Kani harness of the same name",
        "usize is 64 bits (global size_of usize == 8)",
    ],
    unverified_remainder=["get_crc16_buggy / get_crc16_buggy_zlde / buggy_update (deliberately non-standard variants, "
                          "not part of the property)"],
    explanation="Caller clause (unit fonts): BitFont::calculate_checksum is the incremental CRC-32 register over the glyph rows of the codes 0..length in order. "
                "get_crc16/update_crc16/update_crc32/update_slow/get_crc32 are proved equal to the bit-at-a-time "
                "definitions for strings of every length (Verus, loop invariants over the consumed prefix); the "
                "table contents are proved entry by entry by Kani against the defining recurrences.",
)

PROPS["C18"] = dict(
    units=["revmaps"],
    kani_quick=["c18_attr_byte_roundtrip", "c18_attr_tuple_roundtrip", "c18_cp437_table_injective",
                "c18_cp437_ascii_identity", "c18_cp437_to_unicode_is_table", "c18_atascii_to_unicode_is_table", "c18_viewdata_to_unicode_is_table", "c18_atascii_table_injective_128", "c18_atascii_ascii_identity",
                "c18_petscii_pairs_distinct", "c18_petscii_alnum_closed", "c18_viewdata_alnum_identity",
                "c18_viewdata_alnum_unique", "c18_mode7_alnum_identity", "c18_mode7_alnum_unique"],
    kani_bounded={},
    trusted_base=COMMON_TRUST[:1] + [
        "unit revmaps proves the real lazy_static initialiser blocks of UNICODE_TO_CP437 and UNICODE_TO_ATARI against vstd's HashMap specification (every table entry maps back to its index); for the remaining maps: "
        "std HashMap insert/get/collect semantics for the lazily built reverse maps ("
        "UNICODE_TO_PETSCII, PETSCII_TO_UNICODE, UNICODE_TO_VIEWDATA): from(to(c)) == c is derived from the table "
        "facts proved here (injectivity / identity on alphanumerics / last-index-wins) plus those semantics; "
        "Kani cannot execute a std HashMap (measured), so this step is assumed",
    ],
    unverified_remainder=["the HashMap-building closures inside lazy_static! (see trusted base)"],
    engine="kani (KC)",
    technique="complete-finite Kani harnesses (loop-free, full-domain symbolic inputs) on the real codec functions and tables",
    explanation="All 256 attribute bytes x 3 modes, all (fg,bg,blink,bold) tuples expressible in a mode, and the "
                "code-page tables (symbolic index pairs) are decided exhaustively by CBMC on the real functions.",
)

KIND_NOTE = ("the terminal-state units are instantiated per property for the kind of buffer the property speaks about (spec fn vx_buffer_kind in vx/prelude/term_specs.rs, "
             "part of the state invariant): is_terminal_buffer == true for C01 / C09, == false for the file loaders of C02, both (two runs, a case split) for C03")
TERM_TRUST = COMMON_TRUST + [
    KIND_NOTE,
    "S1/S2: assumed specs of std functions in vx/prelude/std_shims.rs (max/min shims, i32::saturating_add/sub, char::from_u32)",
    "S4: derived Clone of Line is structural (external_body impl in vx/prelude/term_specs.rs)",
    "S6: std's blanket impl<T> From<T> for T is the identity (axiom_position_into_self, axiom_size_into_self)",
    "O1: the statement `self.sixels.retain(..float geometry..)` in Layer::set_char is replaced by a stub with an assumed frame (only `sixels` changes)",
    "Buffer::stop_sixel_threads (VecDeque<JoinHandle>::clear): assumed frame contract; Buffer::get_char / get_line_count not used here (assumed-contract stubs)",
    "sizes and coordinates are capped at 2^29 and grow by at most 512 per character: the proof covers every stream of up to 2^20 characters from any state whose sizes are below 2^28 (i32 arithmetic genuinely overflows after about 2^31 line feeds)",
    "reachable-state fact used: OriginMode::WithinMargins is never selected by any emulation (the DECOM arm is commented out in ansi/mod.rs)",
]
TERM_REMAINDER = [
    "ansi::Parser::print_char (the ANSI/VT dispatcher, its arms, DCS / OSC / macro / font-selection / ANSI-music sub-languages, sixel decode threads): "
    "emulations that fall through to it (Avatar, PCBoard, Ctrl-A, Renegade) use the trait contract of BufferParser::print_char as an ASSUMED contract of the stand-in type AnsiParser",
    "the byte-stream restriction is_byte(c): the proof covers characters U+0000..U+00FF, i.e. byte streams as in the property statement",
]

EMU_UNITS = ["emu_ascii", "emu_atascii", "emu_avatar", "emu_viewdata", "emu_mode7", "emu_ctrla", "emu_pcboard", "emu_renegade", "emu_petscii"]
PROPS["C01"] = dict(
    buffer_kind="terminal",
    units=["term_core", "ansi_cmds", "dcs_macro"] + EMU_UNITS,
    kani_quick=["c01_ctrla_table_len", "c01_parse_next_number_nonneg", "std_spec_char_range_contains", "std_spec_i32_saturating_mul"],
    trusted_base=TERM_TRUST, unverified_remainder=TERM_REMAINDER,
    explanation="Every screen operation the emulations are built from (Line, Layer, TerminalState, Buffer geometry, the Caret "
                "movements and Buffer::print_char / scroll / clear / insert / delete) is proved panic-free (index, overflow, "
                "unwrap, assert, clamp preconditions) from the inductive state invariant term_inv, and proved to re-establish it "
                "(term_step) with a bounded growth per character.",
)
PROPS["C09"] = dict(
    buffer_kind="terminal",
    units=["term_core", "ansi_cmds"] + EMU_UNITS,
    trusted_base=TERM_TRUST, unverified_remainder=TERM_REMAINDER + ["Viewdata / Mode 7 fixed-grid frame conditions (unit small_emus)"],
    explanation="caret_in_view (column in 0..width, row within the last `height` rows) is a postcondition of every clamping "
                "operation (limit_caret_pos and everything that ends in it, clear_screen, ff) and is preserved by the relative "
                "moves (lf, bs, print_char, print_value).",
)
PROPS["C03"] = dict(
    buffer_kind=["terminal", "picture"],
    units=["term_core", "ansi_cmds", "emu_avatar", "sixel", "dcs_macro", "macro_rec", "fonts", "icy_load", "buf_sauce", "tnd_load"],
    trusted_base=TERM_TRUST + ["String / &str byte lengths are uninterpreted but consistent (O1 stubs str_len / string_len in unit dcs_macro)"],
    unverified_remainder=TERM_REMAINDER + ["macro recursion: unit macro_rec proves that invoke_macro_by_id dispatches characters only at nesting depth <= 16, restores the depth and never raises the expansion budget; that the dispatcher (print_char, not under contract as a whole) leaves both fields alone is ASSUMED - no other code writes them",
                                           "the body of parse_hex_macro_sequence around push_repeated (string iteration), base64 font payloads"],
    explanation="Every loop of the screen operations has a decreases measure (termination proved) and iterates over ranges bounded "
                "by the margins / screen / row count, not by numeric parameters; erase_charcter's count is proved clamped to the width.",
)

LOADER_TRUST = COMMON_TRUST + [
    "N6: error payloads (anyhow::Error, LoadingError/SauceError values) are replaced by an opaque local error type; error *construction* arguments that index the input are kept",
    "input byte strings are shorter than 2^31 - 65536 bytes (MAXLEN)",
    "O1 stubs with assumed total contracts: chrono date parsing (vx_parse_date), Display of SauceString (vx_sstr_to_string)",
]
PROPS["C11"] = dict(
    units=["sauce", "buf_sauce", "idf_load"],
    trusted_base=LOADER_TRUST + ["array-vs-slice comparison `SAUCE_ID != data[o..o+5]` is uninterpreted in Verus: which files are *recognised* as carrying SAUCE is not decided, only what is cut when they are"],
    unverified_remainder=["Buffer::write_sauce_info is proved for its framing (appends exactly EOF + COMNT block + 128 bytes, leaves the content untouched, comment count at record offset 104), for the title / author / group content bytes at offsets 7 / 42 / 62, and for data type, file type / BIN width, TInfo1 / TInfo2 and the ice, aspect-ratio and letter-spacing flag bits; NOT decided: the id and version bytes, the padding of the text fields, TInfoS (font name), comment lines' contents; Buffer accessors, chrono date, to_le_bytes and SauceData::default() fields are O1 stubs",
                          "equality of the loaded pictures beyond byte-identical loader input (argued from determinism of the loaders)"],
    explanation="SauceString::{read,len,append_to} are proved against the SAUCE rev-5 field codec (LEN bytes, content then padding) and "
                "lemma_sauce_field_roundtrip proves read(append_to(s)) equal to s under the type's trimmed equality for every content "
                "without interior NUL. SauceData::extract is proved to return sauce_header_len == EOF byte + COMNT block (5 + 64 n) + 128 "
                "exactly (sauce_cut), never more than the input, for every input, and to decode data type, width/height, ice / letter-spacing / aspect flags, title, author and group "
                "from the SAUCE rev-5 offsets. SauceString::from never exceeds its slot. Buffer::from_bytes hands the format loader exactly bytes[..len - cut]. "
                "lemma_cut_exact composes writer and reader: what write_sauce_info appended is exactly what is cut.",
)
PROPS["C02"] = dict(
    buffer_kind="picture", also_tags=["C01"],
    units=["sauce", "xbin_load", "fonts", "bin_load", "idf_load", "tnd_load", "tdf_load", "icy_load", "buf_sauce", "palette_load", "buf_new", "sixel_layers",
           "term_core", "ansi_cmds", "dcs_macro", "emu_ascii", "emu_atascii", "emu_avatar", "emu_ctrla", "emu_pcboard", "emu_renegade", "emu_petscii"],
    trusted_base=LOADER_TRUST + TERM_TRUST[len(COMMON_TRUST):],
    unverified_remainder=["IcyDraw (unit icy_load): read_utf8_encoded_string and the two layer-chunk blocks of load_buffer (first chunk: title, fixed header, picture or first rows of cells; continuation chunk: further rows / picture bytes) are sliced out of the function and proved total on every payload up to 1 GiB, with the declared layer size capped at 65535 x 65535 before rows are allocated; NOT decided: the chunk dispatch itself (PNG decoder callbacks, zTXt, base64, the regex on the chunk name, `get_mut(layer_num)`, the ICED / PALETTE / SAUCE / FONT arms - FONT calls BitFont::from_bytes, proved in unit fonts), (both further defects a sub-agent saw on the clean tree - Buffer::from_bytes on a path without extension and Palette::load_palette(Ase) = todo!() - are now obligations of units sauce and palette_load and were repaired)", "Palette::load_palette: only the dispatch over the formats is decided (no reachable panic macro, ASE returns an error); the five regex-driven text parsers are opaque arms (rule ARMBODY)",
                          "text formats (ans ice diz pcb avt asc msg an1-an9 seq ata) load through parse_with_parser -> one emulation step per character on a buffer that is NOT a terminal buffer: the state invariant term_inv and every "
                          "step contract of units term_core / ansi_cmds / emu_* hold for both kinds of buffer (the cursor row of a picture buffer is clamped to 0..65534 instead of the view), so each character step is proved panic-free and to grow the picture by a bounded "
                          "number of rows - for pictures up to 132 x 60 columns/rows of *screen* size (the term_inv bounds; a SAUCE record may declare more: not decided). NOT decided: the loader shells around the steps (convert_ansi_to_utf8, the char loop and the sixel wait loop of parse_with_parser, crop_loaded_file, the SAUCE size handling of each format's load_buffer) and the dispatcher of the ANSI parser (as in C01)"],
    explanation="Each loader function under contract is total: no precondition on the data, and every slice, index, subtraction, "
                "unwrap and assert obligation is discharged from the length tests in the code.",
)

PROPS["C16"] = dict(
    units=["palette", "palette_ega", "ansi_cmds"],
    trusted_base=COMMON_TRUST + ["S4: derived Clone / Default of Color are structural (external_body impls in the unit)", "usize is 64 bits", "palettes hold fewer than 2^31 colours"],
    unverified_remainder=["export_palette / load_palette for Hex, JASC PAL, GIMP GPL, ICE, Paint.NET TXT: format!-built text out and regular expressions in; neither verifier has a theory for either - this clause of C16 is NOT decided",
                          "Palette::resize / fill_to_16 / set_color_hsl (float)"],
    explanation="insert_color / insert_color_rgb are proved to return an index that resolves to exactly the RGB value, to leave every previous "
                "index unchanged (whole-sequence frame) and to return the first existing index when the colour is present; set_color(_rgb) "
                "change only the addressed index; get_rgb / get_color equal the abstract resolution pal_rgb; the 6-bit codec (from_63 / "
                "as_vec_63) equals pal6_expand / pal6_reduce entry-wise and lemma_pal6_idempotent proves idempotence for all 6-bit values; the EGA variant of ADF files (unit palette_ega: from_ega_data / to_ega_data read and write the 16 fixed slots of the 64-entry table, lemma_ega_roundtrip). Call site SGR 38/48 (unit ansi_cmds, clauses tagged C16): parse_extended_colors returns an index that resolves to the selected xterm table entry / RGB triple (through the insert contracts proved in unit palette).",
)

import scans
PROPS["C10"] = dict(
    units=[],
    kani_quick=["c10_xbin_transmute_domain", "c10_hex_table_len"],
    scans=[scans.scan_unsafe_sites],
    engine="site scan + kani (KC); the unchecked conversions inside functions under contract carry their safety condition as a Verus precondition",
    technique="safety preconditions of unchecked conversions as proof obligations (Kani complete-finite on the operand expressions) plus a token scan that no unchecked-conversion site exists outside the reviewed, pinned ones",
    trusted_base=COMMON_TRUST[:1] + ["safe Rust cannot construct an invalid char or String: the property can only fail at unsafe conversion sites",
        "the scan's tokenizer (vx/rustlex.py) and its list of unsafe conversion identifiers",
        "parse_hex_macro_sequence: `first`, `second` come from HEX_TABLE.iter().position(..): the bound < 16 is argued from the table length (proved by c10_hex_table_len), the enclosing string-processing function is not under contract"],
    unverified_remainder=["`unsafe impl Send/Sync for DrawExecutor` in igs/paint.rs (not a conversion; outside this property)"],
    explanation="After the repairs recorded in known_findings.txt only two unchecked conversions remain in non-test code; each is pinned by the scan and "
                "its operand domain is decided by a loop-free Kani harness over all inputs. Any new or modified unchecked-conversion site fails the scan.",
)

PROPS["C14"] = dict(
    units=["sixel", "sixel_threads", "sixel_layers", "dcs_sixel"],
    trusted_base=COMMON_TRUST + [
        "std thread semantics behind the two assumed specs of the abstract handle: JoinHandle::is_finished answers true only for a terminated thread and never blocks; join on a terminated thread returns at once with the closure's value",
        "thread::spawn in execute_dcs: assumed to return a handle whose join() yields what the closure returns (stub vx_spawn_decode, unit dcs_sixel); that the closure calls Sixel::parse_from on the payload is read from the replaced statement, not proved",
        "O1 stub vx_feed_chars: the `for ch in data.chars() { self.parse_char(ch)? }` shell of SixelParser::parse_from (&str iteration) is assumed to be a sequence of parse_char steps (each proved to keep the row invariant)",
        "the sixel palette (Palette::{len,get_color,set_color_rgb,set_color_hsl}) is used through stubs that only track its length; Buffer::get_font_dimensions (font table lookup), Sixel::get_screen_rect and Rectangle::contains_rect are assumed total",
        "sixel payloads are shorter than 2^24 data characters",
    ],
    unverified_remainder=["Buffer::update_sixel_threads: the image list after a poll is proved to be deliver(old list, queue, consumed handles): the finished decodes of the consumed queue prefix placed one after the other in arrival order, each placement removing exactly the older images the new one fully covers and keeping the order of the others (the two rectangle helpers get_screen_rect / contains_rect are uninterpreted functions of their arguments). File loading (unit sixel_layers): the statements of parse_with_parser that turn the image list into image layers are proved to produce one layer per image in arrival order with the image's position as offset; the wait loop in front of them is proved to leave only with an empty queue (its termination is not: it sleeps until the threads finish). Unit dcs_sixel: the sixel branch of Parser::execute_dcs appends exactly one handle at the back of the queue and does not touch the image list (thread::spawn is an O1 stub yielding an abstract handle; the parameter scan in front of the branch is not part of the slice)",
                          "consistency with a declared raster size beyond the SIXEL_MAX_DIM bound"],
    explanation="SixelParser: the invariant 'every pixel row holds whole RGBA pixels' is preserved by translate_sixel_to_pixel, parse_sixel_data and parse_char in all four states, and "
                "parse_from is proved to return picture_data.len() == 4 * width * height for every payload. Buffer::update_sixel_threads is proved against an abstract thread queue whose "
                "is_finished() is unconstrained (= every completion schedule and every placement of polls): exactly a prefix of the queue is consumed (FIFO, no loss, no duplication) and join() is "
                "only reached for terminated threads (never blocks).",
)

PROPS["C13"] = dict(
    units=["composite"],
    trusted_base=COMMON_TRUST + [
        "HalfBlock::from / Buffer::make_solid_color (font-table lookup + count_ones) is an uninterpreted function `solid` of (font table, transparent cell, underlying cell): assumed deterministic in exactly these arguments",
        "S6 axioms for Into<Position>; layer offsets and query positions within +-2^29 (Position subtraction does not overflow)",
    ],
    unverified_remainder=["the laws are proved for overlay-free stacks (overlay_layer is None); the overlay step itself is part of the refinement proof of get_char",
                          "LAW 3 is proved in its exact form: an empty alpha layer leaves its default font page behind (only the font page of a final default cell can show it) - the informal 'never changes any displayed cell' holds up to that font page"],
    explanation="Buffer::get_char (all 13 return paths) is proved equal to the recursive top-down definition comp(stack, pos); the stacking laws are lemmas on comp proved by induction on the stack: "
                "hidden or non-covering layers are removable (lemma_skip_layer), empty alpha cells pass through (lemma_empty_alpha_layer), an opaque layer hides everything beneath (lemma_opaque_hides), "
                "translation invariance (lemma_translate), locality (lemma_comp_local).",
)

PROPS["C06"] = dict(
    units=["xbin_compress", "xbin_load", "xbin_save", "save_dispatch"],
    trusted_base=COMMON_TRUST + [
        "Buffer::get_char is used through its contract r == comp(stack, pos) proved in unit `composite` (imported as an assumed contract here)",
        "TextAttribute::as_u8 is an uninterpreted function attr_byte(fg, bg, attr flags, ice mode): assumed to read exactly those four values (not the font page)",
        "`Compression as u8` discriminants as Verus translates the #[repr(u8)] enum; picture at most 65535 x 65535 (the header stores u16 sizes)",
    ],
    unverified_remainder=["count_length (the cost look-ahead) is proved terminating and overflow-free only: no functional contract is needed, the run-ending decisions are free choices in the proof",
                          "XBin::to_bytes (unit xbin_save): font table and palette are opaque stubs (O1), so the *contents* of the palette / font blocks are not decided there, only their lengths; write_sauce_info is an assumed append-only frame",
                          "the link 'rows_ok(bytes) ==> xb_wf(bytes) and xb_cells(bytes) == the row cells in order' between the two units is lemma_decodes_wf per row; the concatenation over rows is not stated as a lemma"],
    explanation="compress_backtrack is proved against an independent decoder specification written from doc/FileFormats/x_bin.htm (decodes_to): the bytes it appends are, row by row, "
                "a whole number of runs of 1..=64 cells that decode to exactly the `width` (character byte, attribute byte) pairs the uncompressed writer would emit for that row "
                "(rows_ok), for every buffer, every look-ahead decision and every run length; bytes already in the output are untouched. "
                "Unit xbin_load proves the real decoder read_data_compressed against the same specification: on every stream of complete runs it stores exactly "
                "dec_cell(xb_cells(bytes)[n]) at the n-th row-major position (picture_ok), read_data_uncompressed stores dec_cell of the byte pairs at the same positions, "
                "so equal cell sequences give identical pictures; on any other byte string both readers terminate without a panic.",
)


PROPS["C05"] = dict(
    units=["xbin_load", "bin_load", "xbin_save", "idf_load", "idf_save", "tnd_load", "tnd_save", "sauce", "buf_sauce", "buf_new", "palette"],
    kani_quick=["c18_attr_byte_roundtrip", "c18_attr_tuple_roundtrip", "c05_from_u8_fields"],
    trusted_base=LOADER_TRUST + [
        "Buffer::new: assumed (stub vx_buffer_new) to hold exactly one layer built by Layer::new(size); that Layer::new gives an unlocked visible layer pre-filled with `height` rows of `width` invisible cells is proved in unit buf_new (modulo derive(Default) and Vec::resize), Line::create in unit term_core",
        "Buffer::set_sauce is used by the loader units through the stub vx_set_sauce whose clauses are proved for the real function in unit buf_sauce; Palette::from_63 assignment, BitFont::create_8 / set_font / clear_font_table are opaque statements (O1) with the contracts stated in the units",
    ],
    unverified_remainder=["readers under contract: XBin, BIN, ADF, IDF (files up to 28 KiB); writers under contract: XBin (header, flags, image block, nothing after it without SAUCE), BIN, ADF (version byte, image block = the last 2*80*h bytes, row-major) and IDF (screen block == the picture's cells under the reader's record grammar, compressed or not). Tundra: reader (unit tnd_load) and writer (unit tnd_save) are both proved against one shared command grammar (prelude/tnd_specs.rs): the reader paints exactly tnd_cells(stream) row-major with colour indices that resolve to the commanded 24-bit colours (abstract palette: the clauses of Palette::insert_color_rgb proved in unit palette are assumed at the call), the writer's stream has tnd_cells == the picture's cells - for pictures whose cells are all visible and not bold and whose colour 0 is black (outside that scope the writer is NOT decided: invisible cells in the middle of a picture are skipped without a position command, bold cells compare base colours only). NOT decided: the palette / font blocks the writers emit (opaque stubs); Tundra position commands (the writer never emits them; on such files only totality is proved); SAUCE geometry of BIN files is the sauce unit's clause tagged C05 (BinaryText width = 2 * file type byte)",
                          "for pictures higher than 25 rows the loaded height is proved <= the header height, equality needs the data to be complete (not stated)",
                          "palette and font block contents (from_63 is proved in unit palette; glyph data in C17)"],
    explanation="XBin::load_buffer is proved total on every byte string up to 16 MiB and to return the header's width, a height equal to the header's for pictures of at most 25 rows "
                "(the defect found), the ice flag of the header; the image readers place dec_cell of every (character, attribute) pair at its row-major position; "
                "TextAttribute::from_u8 equals its specification and Kani proves as_u8(from_u8(b, m), m) == b for every byte and mode (loop-free, complete).",
)


PROPS["C17"] = dict(
    units=["fonts", "tdf_load", "tdf_save", "dcs_font", "xbin_load", "bin_load", "idf_load", "xbin_save"],
    kani_quick=["std_spec_le_bytes"],
    trusted_base=COMMON_TRUST + [
        "S7: char obeys the hash-table key model (vstd assumes the same for the integer key types); std HashMap through vstd's specification",
        "S8: u32/u16 from_le_bytes / to_le_bytes are little-endian (O1 stubs vx_u32_le, vx_u16_le, vx_push_u32_le) - proved for every u32 / u16 by the Kani harness std_spec_le_bytes",
        "O1: `char::from_u32(i).and_then(|c| self.get_glyph(c))` is replaced by vx_glyph_at with the composed contract of char::from_u32 (S2) and HashMap::get",
        "BitFont::calculate_checksum is an assumed-frame function (changes only `checksum`)",
    ],
    unverified_remainder=["DCS font loading (unit dcs_font): Parser::load_custom_font is proved to hand exactly the decoded payload to BitFont::from_bytes and to store the result in exactly the parsed slot whenever find / parse / base64 / from_bytes accept - base64 itself, the format! of BitFont::encode_as_ansi and the DCS dispatch that reaches load_custom_font are NOT decided; fonts embedded in XBin files: XBin::load_buffer is proved (clauses tagged C17 in unit xbin_load) to build font slot 0 / 1 from exactly the 256*h bytes at the font offset with dimensions 8 x h and to accept every header with h <= 32 (BitFont::create_8 is opaque there and proved in unit fonts); ADF: slot 0 is built from exactly bytes 193..4289 as an 8x16 font (unit bin_load); IDF: slot 0 is built from the 4096 bytes at the position where the record loop stops (idf_stop, == end of the screen block for a whole number of records; unit idf_load); fonts embedded in IcyDraw files are not decided, PSF1 512-glyph tables",
                          "TheDraw fonts (TDF): from_tdf_bytes is proved total and, for the first font of a bundle, to decode type, spacing, which of the 94 glyphs are defined and each glyph's size from the TDF offsets; each glyph's data bytes (zero-terminated, colour fonts in character/attribute pairs); the writer (unit tdf_save): add_font_data / as_tdf_bytes are proved to emit a record that matches the font under the same layout specification (prelude/tdf_specs.rs: type, spacing, offset table, each glyph's size and data) for fonts in the stated scope tdf_writable (94 table entries, spacing >= 0, glyph sizes <= 255, glyph data that the format can carry: no 0 character, complete character/attribute pairs in colour fonts); lemma_tdf_roundtrip composes writer and reader; bundles: from_tdf_bytes is proved for every font of a bundle (font i matches the record at tdf_start(bytes, i), the records before the terminator are exactly the fonts returned) and create_font_bundle to write records that match fonts[i] at tdf_start(out, i) and stay closed under the bytes appended later (lemma_record_grows, lemma_start_stable, lemma_bundle_count); NOT decided: font names (String bytes are opaque)",
                          "built-in font pages are include_bytes! data: their content is not read by the verifier"],
    explanation="glyphs_from_u8_data is proved to build exactly the table {code i -> rows [i*h, i*h+h)} for every complete glyph below 0xD800 (and to terminate, h = 0 included); "
                "convert_to_u8_data to emit those rows back in code order; create_8 / from_basic / load_plain_font / load_psf1 / load_psf2 / from_bytes to be total and to decode "
                "the header fields; to_psf2_bytes to write header and glyph block; lemma_raw_roundtrip and lemma_psf2_roundtrip compose the contracts into the bit-exact round trips of C17.",
)


PROPS["C12"] = dict(
    units=["color_opt", "color_opt_layer", "flat_clone", "save_dispatch"],
    kani_quick=["std_spec_u8_count_ones"],
    trusted_base=COMMON_TRUST + [
        "S9: u8::count_ones facts (0 <= n <= 8, n == 0 <=> b == 0, n == 8 <=> b == 0xFF) - proved by the Kani harness std_spec_u8_count_ones for all 256 values, assumed in the Verus unit",
        "the renderer's per-pixel rule (glyph bit ? foreground, bright when bold and < 8 : background) is transcribed as spec fn pixel_colour from Buffer::render_to_rgba; the render loops themselves are not under contract",
    ],
    unverified_remainder=["BLOCK SLICE: the body of the layer loop of ColorOptimizer::optimize (both cell loops, with the real Layer::get_char / set_char calls through their contracts) is verified as optimize_layer (unit color_opt_layer): every cell of the layer is rewritten at most once, in place, by a rewrite that keeps every admissible pixel colour, and no other cell changes; the innermost body alone is also verified as optimize_cell (unit color_opt). NOT decided: the outer `for layer in &mut b.layers` shell and its composition with flat_clone; the shape-map lookups (nested HashMap .get().unwrap(), which can panic for a cell whose font page or character has no glyph) are O1 stubs returning an uninterpreted function of (optimizer, font page, character)",
                          "generate_shape_map (iteration over HashMaps) and Buffer::render_to_rgba are not under contract",
                          "Buffer::flat_clone(false) (unit flat_clone) is proved to copy, cell for cell, what get_char composites (up to invisible cells); its terminal-state / palette / sauce / font-table clones are dropped statements (O1), deep_layers = true is not covered",
                          "fonts narrower than 8 pixels: Block classification counts all 8 bits of a row"],
    explanation="get_shape is proved sound: Whitespace => every row of the glyph is 0, Block (8-pixel font, height rows) => every row is 0xFF. The real text of the cell rewrite in "
                "ColorOptimizer::optimize is proved to keep the attribute flags and font page, to change the character only to ' ' and only for a Whitespace glyph when the font's own ' ' "
                "glyph is Whitespace (the defect found), and to keep pixel_colour(bit, attribute) for every glyph bit the shape class admits; lemma_cell_picture composes the two into "
                "'every pixel of the cell keeps its colour'. Unit color_opt_layer lifts the per-cell fact to the layer: after the two cell loops every cell is either untouched or such a rewrite of the cell that was there.",
)
