"""Static site scans that complement the contracts (C10): every unsafe / unchecked conversion site in non-test code must be
accounted for - either inside a function whose contract carries the safety condition, or on the reviewed list below."""
import os, re, sys
sys.path.insert(0, os.path.join(os.path.dirname(os.path.abspath(__file__)), "vx"))
import rustlex

UNSAFE_TOKENS = ("from_u32_unchecked", "from_utf8_unchecked", "transmute", "from_raw_parts", "from_raw_parts_mut",
                 "get_unchecked", "get_unchecked_mut", "unchecked_add", "unchecked_sub", "unchecked_mul", "from_utf8_unchecked_mut",
                 "as_bytes_mut", "assume_init", "zeroed", "uninitialized", "from_digit_unchecked", "unreachable_unchecked")

# reviewed sites: (file, enclosing fn, token) -> how the safety condition is discharged
# the statement at a reviewed site is pinned (whitespace-insensitive); if it changes the site must be reviewed again
PINNED = {
    ("src/formats/xbinary.rs", "read_data_compressed", "transmute"):
        "let compression = unsafe { std::mem::transmute(xbin_compression & 0b_1100_0000) };",
    ("src/parsers/ansi/dcs.rs", "parse_hex_macro_sequence", "from_u32_unchecked"):
        "let cc = unsafe { char::from_u32_unchecked((first * 16 + second) as u32) };",
}
REVIEWED = {
    ("src/formats/xbinary.rs", "read_data_compressed", "transmute"):
        "operand is `byte & 0b1100_0000`, one of the four declared discriminants of #[repr(u8)] Compression; "
        "discharged by the Verus precondition of vx_compression_from_bits (unit xbin) and the Kani harness c10_xbin_transmute_domain",
    ("src/parsers/ansi/dcs.rs", "parse_hex_macro_sequence", "from_u32_unchecked"):
        "operand is first * 16 + second with both obtained from HEX_TABLE.iter().position(..) on the 16-entry table, i.e. <= 255; "
        "Kani harness c10_hex_table_len proves the table length; the arithmetic bound is argued, not proved",
}


def enclosing_fn(sf, tok_index):
    off = sf.toks[tok_index].start
    best = None

    def walk(items):
        nonlocal best
        for it in items:
            if it.start <= off < it.end:
                if it.kind == "fn":
                    best = it.name
                walk(it.children)
    walk(sf.items)
    return best


def in_test_code(sf, tok_index):
    off = sf.toks[tok_index].start

    def walk(items):
        for it in items:
            if it.start <= off < it.end:
                head = sf.text[it.start:it.attr_end]
                if "cfg(test)" in head or (it.kind == "mod" and it.name in ("tests", "test")):
                    return True
                if walk(it.children):
                    return True
        return False
    return walk(sf.items)


def scan_unsafe_sites(repo):
    failures, info, undecided = [], [], []
    n_sites = 0
    for root, _, files in os.walk(os.path.join(repo, "src")):
        for f in sorted(files):
            if not f.endswith(".rs"):
                continue
            path = os.path.join(root, f)
            rel = os.path.relpath(path, repo)
            if "/tests" in rel or rel.endswith("tests.rs") or rel.endswith("_tests.rs") or "verif_" in rel:
                continue
            try:
                sf = rustlex.SourceFile(rel, open(path).read())
            except Exception as e:
                undecided.append(f"scan: cannot lex {rel}: {e}")
                continue
            for k, t in enumerate(sf.toks):
                if t.kind == "id" and t.text in UNSAFE_TOKENS and sf.toks[k + 1].text in ("(", "::", "<"):
                    if in_test_code(sf, k):
                        continue
                    n_sites += 1
                    fn = enclosing_fn(sf, k) or "?"
                    key = (rel, fn, t.text)
                    line = sf.line_of(t.start)
                    src_line = sf.text[sf.line_starts[line - 1]:].split("\n")[0].strip()
                    if key in REVIEWED and re.sub(r"\s+", "", PINNED.get(key, src_line)) != re.sub(r"\s+", "", src_line):
                        failures.append(dict(id=f"scan/reviewed-site-changed/{rel}:{fn}:{t.text}", kind="site-changed", fn=fn,
                                             message=f"the reviewed unchecked conversion in {fn} no longer has the operand that was shown safe",
                                             where=f"{rel}:{line}", source_line=src_line,
                                             clause="pinned statement: " + PINNED[key], rendered=""))
                    elif key in REVIEWED:
                        info.append(f"{rel}:{line} {fn}: {t.text} - {REVIEWED[key]}")
                    else:
                        failures.append(dict(id=f"scan/unchecked-site/{rel}:{fn}:{t.text}", kind="site-not-under-contract", fn=fn,
                                             message=f"unchecked conversion `{t.text}` in {fn} is not covered by any contract or reviewed site",
                                             where=f"{rel}:{line}", source_line=sf.text[sf.line_starts[line - 1]:].split("\n")[0].strip(),
                                             clause="every unchecked conversion site must carry a discharged safety precondition",
                                             rendered=""))
    # every reviewed site must still exist (lost anchor otherwise)
    found = {x.split(" - ")[0] for x in info}
    for key in REVIEWED:
        if not any(key[0] in x and key[1] in x for x in info):
            info.append(f"reviewed site {key} no longer present (fine: fewer unchecked conversions)")
    return dict(obligations=max(1, n_sites), failures=failures, undecided=undecided,
                info=dict(scan="unsafe/unchecked conversion sites in non-test code", sites=n_sites, reviewed=info))
