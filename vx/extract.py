"""Extractor: builds one Verus file per unit from /repo's current working tree.

Reads a unit description (`units/<unit>.vc`), locates the named items in the real source files,
copies their text unchanged, applies the documented normalisation rules (DESIGN.md 3.2),
splices the contract clauses and proof blocks, and records a line map
(generated line -> source file:line | contract clause).

Nothing executable is added, removed or reordered except by the listed rules; every rule that
fires is recorded (rule id, file, line).
"""
import hashlib
import os
import re
import sys

sys.path.insert(0, os.path.dirname(os.path.abspath(__file__)))
import rustlex  # noqa: E402
from rustlex import lex, match_groups  # noqa: E402

VX = os.path.dirname(os.path.abspath(__file__))


class LostAnchor(Exception):
    """An item / loop / anchor named by the unit no longer exists in the source -> exit 2."""


class UnitSyntaxError(Exception):
    pass


# --------------------------------------------------------------------------------------------
# unit file parsing
# --------------------------------------------------------------------------------------------

class FnSpec:
    def __init__(self, path, opts, lineno):
        self.path, self.opts, self.lineno = path, opts, lineno
        self.requires, self.ensures = [], []   # list of (tag|None, text)
        self.loops = {}        # ordinal -> dict(invariant=[(tag,text)], decreases=str|None, iter=str|None, extra=str)
        self.proofs = []       # (where, arg, nth, text)
        self.rewrites = []     # (rule, anchor, nth)
        self.head = []         # raw clause text placed before requires (e.g. `decreases` for recursion)
        self.attrs = []        # verus attributes put in front of the fn


class ItemSpec:
    def __init__(self, path, opts, lineno):
        self.path, self.opts, self.lineno = path, opts, lineno
        self.rewrites = []


class Unit:
    def __init__(self, name):
        self.name = name
        self.verus_args = []
        self.entries = []      # ('raw', text, label) | ('item', ItemSpec) | ('fn', FnSpec)
        self.props = []
        self.allow = []        # allowed assumption markers
        self.kani = []
        self.pathmap = []
        self.autoproof = []
        self.autoinv = []


def parse_opts(words):
    opts = {}
    for w in words:
        if "=" in w:
            k, v = w.split("=", 1)
            opts[k] = v
        else:
            opts[w] = True
    return opts


CLAUSE_RE = re.compile(r"^\s*\[(C\d\d(?:,C\d\d)*)\]\s*")


def split_clauses(lines):
    """Clauses are separated by lines; a clause may span several lines if continuation lines are
    indented deeper than the first.  Returns list of (tag, text)."""
    out = []
    cur, cur_indent = None, None
    for ln in lines:
        if not ln.strip() or ln.strip().startswith("//"):
            continue
        ind = len(ln) - len(ln.lstrip())
        if cur is not None and ind > cur_indent:
            cur[1] += "\n" + ln.rstrip()
            continue
        m = CLAUSE_RE.match(ln)
        tag = None
        body = ln.strip()
        if m:
            tag = m.group(1)
            body = ln[m.end():].strip()
        cur = [tag, body]
        cur_indent = ind
        out.append(cur)
    res = []
    for tag, text in out:
        text = text.rstrip()
        if text.endswith(","):
            text = text[:-1]
        res.append((tag, text))
    return res


def parse_unit(path):
    name = os.path.splitext(os.path.basename(path))[0]
    u = Unit(name)
    lines = open(path).read().split("\n")
    i = 0
    cur_fn = None

    def block(start):
        j = start
        while j < len(lines) and not lines[j].startswith("@"):
            j += 1
        return lines[start:j], j

    while i < len(lines):
        ln = lines[i]
        if not ln.startswith("@"):
            if ln.strip() and not ln.strip().startswith("#"):
                raise UnitSyntaxError(f"{path}:{i+1}: text outside a directive: {ln!r}")
            i += 1
            continue
        words = ln.split()
        d = words[0]
        if d == "@unit":
            u.name = words[1]
            i += 1
        elif d == "@include":
            inc, _, iopt = ln[len("@include"):].partition("|")
            sub = parse_unit(os.path.join(os.path.dirname(path), inc.strip()))
            if "assume" in iopt.split():
                # modular reuse: the included unit's functions are verified in their own unit; here only their
                # contracts are used (bodies elided, T5) - recorded as "contract proved in unit <name>"
                for n_e, ent in enumerate(sub.entries):
                    if ent[0] == "raw" and not str(ent[2]).startswith("prelude:"):
                        # lemmas written in the included unit are proved there; here they are used like the imported contracts
                        # (re-proving every lemma in every including unit made an unrelated unit hit the resource limit)
                        txt = re.sub(r"(?m)^(?<!external_body\]\n)(pub proof fn )",
                                     "#[verifier::external_body] // lemma proved in unit " + sub.name + "\n\\1", ent[1])
                        txt = txt.replace("#[verifier::external_body]\n#[verifier::external_body] // lemma proved in unit " + sub.name + "\n", "#[verifier::external_body]\n")
                        sub.entries[n_e] = (ent[0], txt) + tuple(ent[2:])
                for ent in sub.entries:
                    if ent[0] == "fn":
                        ent[1].opts["external_body"] = True
                        ent[1].opts["proved_in"] = sub.name
                        ent[1].loops = {}
                        ent[1].proofs = []
                        ent[1].rewrites = [r for r in ent[1].rewrites if r[0] in ("N9",)]
            # an entry that an earlier include already brought in (same item / function path, same raw text) is not repeated:
            # two units may share type items and assumed contracts; the first contract of a function wins (both are proved in their units)
            def ent_key(e):
                if e[0] == "raw":
                    return ("raw", e[1])
                if e[0] == "rawin":
                    return ("rawin", e[2], e[1])
                if e[0] == "item":
                    return ("item", rustlex.norm_ws(e[1].path))
                if e[0] == "fn":
                    return ("fn", rustlex.norm_ws(e[1].path), e[1].opts.get("as"), e[1].opts.get("arm_pat"), e[1].opts.get("arm_state"))
                return (id(e),)
            have = set(ent_key(e) for e in u.entries)
            for e in sub.entries:
                k_ = ent_key(e)
                if k_ in have:
                    continue
                have.add(k_)
                u.entries.append(e)
            u.pathmap += sub.pathmap
            u.autoproof += [x for x in sub.autoproof if x not in u.autoproof]
            u.autoinv += [x for x in sub.autoinv if x not in u.autoinv]
            for a_ in sub.allow:
                u.allow.append(a_)
            i += 1
        elif d == "@pathmap":
            # @pathmap crate::ansi:: =>            (prefix token sequence -> replacement text)
            lhs, _, rhs = ln[len("@pathmap"):].partition("=>")
            u.pathmap.append((lhs.strip(), rhs.strip()))
            i += 1
        elif d == "@autoproof":
            u.autoproof.append(ln[len("@autoproof"):].strip())
            i += 1
        elif d == "@autoinv":
            u.autoinv.append(ln[len("@autoinv"):].strip())
            i += 1
        elif d == "@props":
            u.props = words[1:]
            i += 1
        elif d == "@verus":
            u.verus_args += words[1:]
            i += 1
        elif d == "@allow":
            u.allow.append(" ".join(words[1:]))
            i += 1
        elif d == "@use":
            p = os.path.join(VX, words[1])
            u.entries.append(("raw", open(p).read(), f"prelude:{words[1]}"))
            i += 1
        elif d in ("@prelude", "@raw"):
            b, i = block(i + 1)
            b = [x if not (x.startswith("# ") or x == "#") else "" for x in b]
            u.entries.append(("raw", "\n".join(b), f"{d[1:]}@{name}.vc:{i - len(b)}"))
            cur_fn = None
        elif d == "@rawin":
            hdr = ln[len("@rawin"):].strip()
            b, i = block(i + 1)
            b = [x if not (x.startswith("# ") or x == "#") else "" for x in b]
            u.entries.append(("rawin", "\n".join(b), hdr, f"rawin@{name}.vc:{i - len(b)}"))
            cur_fn = None
        elif d in ("@item", "@type"):
            # @item FILE :: path elems [| opts]
            spec, _, optstr = ln[len(d):].partition("|")
            it = ItemSpec(spec.strip(), parse_opts(optstr.split()), i + 1)
            u.entries.append(("item", it))
            cur_fn = it
            i += 1
        elif d == "@fn":
            spec, _, optstr = ln[len(d):].partition("|")
            f = FnSpec(spec.strip(), parse_opts(optstr.split()), i + 1)
            b, i = block(i + 1)
            mode = None
            acc = {"requires": [], "ensures": [], "head": [], "decreases": []}
            for bl in b:
                s = bl.strip()
                if s in ("requires", "ensures", "head", "decreases"):
                    mode = s
                    continue
                if s.startswith("#") and not bl.startswith(" "):
                    continue
                if mode is None:
                    if s and not s.startswith("//"):
                        raise UnitSyntaxError(f"{path}:{f.lineno}: clause text before requires/ensures: {s!r}")
                    continue
                acc[mode].append(bl)
            f.requires = split_clauses(acc["requires"])
            f.ensures = split_clauses(acc["ensures"])
            f.head = [x for x in acc["head"] if x.strip()]
            f.decreases = [x for x in acc["decreases"] if x.strip()]
            u.entries.append(("fn", f))
            cur_fn = f
        elif d == "@attr":
            cur_fn.attrs.append(" ".join(words[1:]))
            i += 1
        elif d == "@loop":
            k = int(words[1])
            opts = parse_opts(words[2:])
            b, i = block(i + 1)
            mode = None
            inv, dec, extra = [], [], []
            for bl in b:
                s = bl.strip()
                if s in ("invariant", "invariant_except_break", "ensures"):
                    mode = s
                    if s != "invariant":
                        extra.append((s, []))
                    continue
                if s.startswith("decreases"):
                    dec.append(s)
                    mode = "decreases"
                    continue
                if mode == "invariant":
                    inv.append(bl)
                elif mode == "decreases":
                    if s:
                        dec.append(s)
                elif mode in ("invariant_except_break", "ensures"):
                    extra[-1][1].append(bl)
            cur_fn.loops[k] = dict(invariant=split_clauses(inv), decreases=" ".join(dec) or None,
                                   iter=opts.get("iter"), extra=[(m, split_clauses(x)) for m, x in extra],
                                   opts=opts)
        elif d == "@proof":
            # @proof before|after "anchor" [nth=k]   | @proof body_start | loop_body_start K | loop_body_end K
            m = re.match(r'@proof\s+(\w+)\s*(?:"((?:[^"\\]|\\.)*)"|(\d+))?\s*(.*)$', ln)
            where, anchor, num, rest = m.group(1), m.group(2), m.group(3), m.group(4)
            opts = parse_opts(rest.split())
            b, i = block(i + 1)
            if anchor is not None:
                anchor = anchor.replace('\\"', '"')
            cur_fn.proofs.append((where, anchor if anchor is not None else num, int(opts.get("nth", 1)),
                                  "\n".join(b), opts))
        elif d == "@rewrite":
            m = re.match(r'@rewrite\s+(\w+)\s*(?:"((?:[^"\\]|\\.)*)")?\s*(.*)$', ln)
            rule, anchor, rest = m.group(1), m.group(2), m.group(3)
            opts = parse_opts(rest.split())
            if anchor is not None:
                anchor = anchor.replace('\\"', '"')
            cur_fn.rewrites.append((rule, anchor, int(opts.get("nth", 1)), opts))
            i += 1
        elif d == "@kani":
            u.kani += words[1:]
            i += 1
        else:
            raise UnitSyntaxError(f"{path}:{i+1}: unknown directive {d}")
    return u


# --------------------------------------------------------------------------------------------
# segments and edits
# --------------------------------------------------------------------------------------------

class Seg:
    """A piece of generated text with its origin.
    origin: ('src', file, first_line) | ('ins', fn_label, clause_label, tag) | ('raw', label)"""
    __slots__ = ("text", "origin")

    def __init__(self, text, origin):
        self.text, self.origin = text, origin


class Edit:
    __slots__ = ("start", "end", "text", "origin", "prio")

    def __init__(self, start, end, text, origin=None, prio=0):
        self.start, self.end, self.text, self.origin, self.prio = start, end, text, origin, prio


def apply_edits(sf, lo, hi, edits):
    """Return list of Seg for sf.text[lo:hi] with edits (absolute offsets) applied."""
    edits = sorted(edits, key=lambda e: (e.start, e.end, e.prio))
    segs = []
    pos = lo
    for e in edits:
        if e.start < pos:
            raise UnitSyntaxError(f"overlapping edits at {sf.path}:{sf.line_of(e.start)}: {e.text[:40]!r}")
        if e.start > pos:
            segs.append(Seg(sf.text[pos:e.start], ("src", sf.path, sf.line_of(pos))))
        if e.text:
            org = e.origin if e.origin else ("src", sf.path, sf.line_of(e.start), "rewritten")
            segs.append(Seg(e.text, org))
        pos = e.end
    if pos < hi:
        segs.append(Seg(sf.text[pos:hi], ("src", sf.path, sf.line_of(pos))))
    return segs


# --------------------------------------------------------------------------------------------
# normalisation rules (token based, produce edits)
# --------------------------------------------------------------------------------------------

KEEP_ATTRS = ("derive", "repr")


class Ctx:
    def __init__(self, repo):
        self.repo = repo
        self.files = {}
        self.fired = []     # (rule, file, line, note)
        self.dropped_hints = []
        self.pathmap = []

    def sf(self, rel):
        if rel not in self.files:
            p = os.path.join(self.repo, rel)
            if not os.path.exists(p):
                raise LostAnchor(f"file {rel} not found")
            self.files[rel] = rustlex.SourceFile(rel, open(p).read())
        return self.files[rel]

    def fire(self, rule, sf, off, note=""):
        self.fired.append((rule, sf.path, sf.line_of(off), note))


def tok_range(sf, lo_off, hi_off):
    """indices of tokens with lo_off <= start < hi_off"""
    import bisect
    starts = getattr(sf, "_starts", None)
    if starts is None:
        starts = sf._starts = [t.start for t in sf.toks]
    a = bisect.bisect_left(starts, lo_off)
    b = bisect.bisect_left(starts, hi_off)
    return a, b


def common_rewrites(ctx, sf, a, b, item_kind, opts):
    """Rules that apply everywhere in token range [a,b): N1 visibility, N2 static->const,
    N7 attributes, N3, N4, N6.  Returns edits."""
    toks, pair = sf.toks, sf.pair
    edits = []
    k = a
    while k < b:
        t = toks[k]
        # N7: attributes (outer) other than derive/repr are dropped
        if t.text == "#" and toks[k + 1].text == "[":
            close = pair[k + 1]
            name = toks[k + 2].text
            if name not in KEEP_ATTRS:
                edits.append(Edit(t.start, toks[close].end, ""))
                ctx.fire("N7", sf, t.start, f"#[{name}..]")
            k = close + 1
            continue
        # N1: visibility normalised to `pub` (visibility has no run-time meaning): pub(crate)/pub(super) -> pub here,
        # missing `pub` on items and fields is added by ensure_pub()
        if t.kind == "id" and t.text == "pub":
            if toks[k + 1].text == "(" and toks[k + 2].text in ("crate", "super", "in", "self"):
                edits.append(Edit(toks[k + 1].start, toks[pair[k + 1]].end, ""))
                k = pair[k + 1]
            k += 1
            continue
        # N10 (pathmap part): unit-specific path prefixes
        if t.kind == "id" and toks[k - 1].text != "::" and ctx.pathmap:
            hit = False
            for lhs_toks, rhs in ctx.pathmap:
                n_ = len(lhs_toks)
                if [x.text for x in toks[k:k + n_]] == lhs_toks:
                    edits.append(Edit(t.start, toks[k + n_ - 1].end, rhs))
                    ctx.fire("N10", sf, t.start, "".join(lhs_toks) + " -> " + (rhs or "''"))
                    k += n_
                    hit = True
                    break
            if hit:
                continue
        # N10: all extracted items live in one module: `super::` / `self::` path prefixes are dropped and the
        # unit's @pathmap prefixes are rewritten (path resolution has no run-time meaning)
        if t.kind == "id" and t.text in ("super", "self") and toks[k + 1].text == "::" and toks[k - 1].text not in ("::", "(") \
                and toks[k + 2].kind == "id":
            edits.append(Edit(t.start, toks[k + 1].end, ""))
            ctx.fire("N10", sf, t.start, f"{t.text}:: dropped")
            k += 2
            continue
        # N2: static -> const (immutable tables)
        if t.kind == "id" and t.text == "static" and toks[k + 1].text != "mut" and toks[k - 1].text != "'" \
                and toks[k + 1].kind == "id" and toks[k + 2].text == ":":
            edits.append(Edit(t.start, t.end, "const"))
            ctx.fire("N2", sf, t.start)
            k += 1
            continue
        # N3: for &x in E {  ->  for x__r in E { let x = *x__r;
        if t.kind == "id" and t.text == "for" and toks[k + 1].text == "&" and toks[k + 2].kind == "id" \
                and toks[k + 3].text == "in":
            var = toks[k + 2].text
            # find body open brace
            j = k + 4
            while toks[j].text != "{":
                j = pair[j] + 1 if toks[j].text in ("(", "[") else j + 1
            edits.append(Edit(toks[k + 1].start, toks[k + 2].end, f"{var}__r"))
            edits.append(Edit(toks[j].end, toks[j].end, f" let {var} = *{var}__r;", prio=-1))
            ctx.fire("N3", sf, t.start)
            k += 3
            continue
        # N4: (A..B).for_each(|v| BODY);  ->  for v in A..B { BODY; }      (v an identifier or `_`; also `..=`)
        if t.text == "(" and toks[pair[k] + 1].text == "." and toks[pair[k] + 2].text == "for_each" \
                and toks[pair[k] + 3].text == "(":
            close_rng = pair[k]
            call_open = close_rng + 3
            call_close = pair[call_open]
            ct = toks[call_open + 1:call_open + 6]
            boff = 4
            vty = None
            if ct[0].text == "|" and ct[2].text == ":" and ct[3].kind == "id" and ct[4].text == "|":
                boff = 6     # typed closure parameter `|v: T|`: the range bounds are cast to T so that the loop variable has the same type
                vty = ct[3].text
                ct = [ct[0], ct[1], ct[4]]
            if ct[0].text == "|" and ct[2].text == "|" and (ct[1].kind == "id" or ct[1].text == "_") \
                    and any(x.text in ("..", "..=") for x in toks[k + 1:close_rng]):
                var = ct[1].text
                body_lo = toks[call_open + boff].start
                body_hi = toks[call_close].start
                rng = sf.text[toks[k + 1].start:toks[close_rng].start]
                if vty:
                    m_ = re.match(r"^\s*(.+?)\s*(\.\.=?)\s*(.+?)\s*$", rng)
                    rng = f"(({m_.group(1)}) as {vty}){m_.group(2)}(({m_.group(3)}) as {vty})"
                semi = toks[call_close + 1]
                if semi.text == ";":
                    body_text_end = sf.text[body_lo:body_hi].rstrip()
                    needs_semi = not body_text_end.endswith("}") and not body_text_end.endswith(";")
                    itn = getattr(ctx, "foreach_iter", {}).get(close_rng + 2)
                    edits.append(Edit(t.start, body_lo, f"for {var} in {itn + ': ' if itn else ''}{rng} "))
                    edits.append(Edit(body_lo, body_lo, "{ ", prio=0.5))
                    if needs_semi:
                        # the `;` goes in front of anything a unit inserts at the end of the body (loop_body_end hints)
                        edits.append(Edit(body_hi, body_hi, ";", prio=-5))
                    edits.append(Edit(body_hi, semi.end, " }"))
                    ctx.fire("N4", sf, t.start)
                    k = call_open + boff
                    continue
        # N4r: (A..=B).rev().for_each(|v| BODY);  ->  exact counting-down while loop
        if t.text == "(" and toks[pair[k] + 1].text == "." and toks[pair[k] + 2].text == "rev" \
                and toks[pair[k] + 3].text == "(" and toks[pair[k] + 5].text == "." and toks[pair[k] + 6].text == "for_each":
            close_rng = pair[k]
            call_open = close_rng + 7
            call_close = pair[call_open]
            ct = toks[call_open + 1:call_open + 4]
            d = k + 1
            while d < close_rng and toks[d].text not in ("..", "..="):
                d = pair[d] + 1 if toks[d].text in ("(", "[") else d + 1
            if ct[0].text == "|" and ct[2].text == "|" and ct[1].kind == "id" and d < close_rng \
                    and toks[call_close + 1].text == ";":
                var = ct[1].text
                A = sf.text[toks[k + 1].start:toks[d - 1].end]
                B = sf.text[toks[d + 1].start:toks[close_rng - 1].end]
                incl = toks[d].text == "..="
                body_lo = toks[call_open + 4].start
                body_hi = toks[call_close].start
                c = f"{var}__c"
                if incl:
                    head = f"{{ let {c}_lo = {A}; let mut {c} = {B}; let mut {c}_more = {c} >= {c}_lo; while {c}_more "
                    first = f"{{ let {var} = {c}; {c}_more = {c} > {c}_lo; if {c}_more {{ {c} -= 1; }} "
                else:
                    head = f"{{ let {c}_lo = {A}; let mut {c} = {B}; while {c} > {c}_lo "
                    first = f"{{ {c} -= 1; let {var} = {c}; "
                body_text_end = sf.text[body_lo:body_hi].rstrip()
                needs_semi = not body_text_end.endswith("}") and not body_text_end.endswith(";")
                edits.append(Edit(t.start, body_lo, head))
                edits.append(Edit(body_lo, body_lo, first, prio=0.5))
                edits.append(Edit(body_hi, toks[call_close + 1].end, (";" if needs_semi else "") + " } }"))
                ctx.fire("N4r", sf, t.start)
                k = call_open + 4
                continue
        # N19: `(A..=B).contains(&X)` -> `(A <= X && X <= B)`, `(A..B).contains(&X)` -> `(A <= X && X < B)` (RangeInclusive / Range::contains on
        # integers, their definition in std; Verus has no specification for them). X is evaluated twice: only simple paths are rewritten.
        if t.text == "(" and pair.get(k) is not None and not opts.get("no_n19"):
            c_ = pair[k]
            if c_ + 6 < len(toks) and toks[c_ + 1].text == "." and toks[c_ + 2].text == "contains" and toks[c_ + 3].text == "(" \
                    and toks[c_ + 4].text == "&" and toks[k - 1].kind != "id":
                x_lo, x_hi = c_ + 5, pair[c_ + 3]
                simple = all(tk.kind in ("id", "num") or tk.text in (".", "::", "as") for tk in toks[x_lo:x_hi]) and x_hi > x_lo
                d_, dots = k + 1, []
                while d_ < c_:
                    if toks[d_].text in ("(", "[", "{"):
                        d_ = pair[d_] + 1
                        continue
                    if toks[d_].text in ("..", "..="):
                        dots.append(d_)
                    d_ += 1
                if simple and len(dots) == 1 and dots[0] > k + 1 and dots[0] < c_ - 1:
                    A_ = sf.text[toks[k + 1].start:toks[dots[0] - 1].end]
                    B_ = sf.text[toks[dots[0] + 1].start:toks[c_ - 1].end]
                    X_ = sf.text[toks[x_lo].start:toks[x_hi - 1].end]
                    cmp_ = "<=" if toks[dots[0]].text == "..=" else "<"
                    # three small edits that leave the bound expressions A and B in place (other rules still apply inside them)
                    edits.append(Edit(t.start, t.end, "(("))
                    edits.append(Edit(toks[dots[0]].start, toks[dots[0]].end, f") <= ({X_}) && ({X_}) {cmp_} ("))
                    edits.append(Edit(toks[c_].start, toks[x_hi].end, "))"))
                    ctx.fire("N19", sf, t.start, f"({A_}{toks[dots[0]].text}{B_}).contains(&{X_})")
                    k += 1
                    continue
        # N14 (qualified form): `std::cmp::min(a, b)` / `cmp::min(a, b)` / `core::cmp::max(a, b)` -> Ord::min(a, b)
        if t.kind == "id" and t.text in ("std", "core", "cmp") and toks[k - 1].text != "::" and not opts.get("no_n14"):
            q_ = k
            if toks[q_].text in ("std", "core") and toks[q_ + 1].text == "::" and toks[q_ + 2].text == "cmp":
                q_ += 2
            if toks[q_].text == "cmp" and toks[q_ + 1].text == "::" and toks[q_ + 2].text in ("min", "max") and toks[q_ + 3].text == "(":
                edits.append(Edit(t.start, toks[q_ + 2].end, "Ord::" + toks[q_ + 2].text))
                ctx.fire("N14", sf, t.start, "qualified " + toks[q_ + 2].text)
                k = q_ + 3
                continue
        # N14: std::cmp::{min,max}(a, b) free functions -> Ord::{min,max}(a, b) (their definition in std)
        if t.kind == "id" and t.text in ("min", "max") and toks[k + 1].text == "(" and toks[k - 1].text not in (".", "::", "fn") \
                and not opts.get("no_n14"):
            edits.append(Edit(t.start, t.start, "Ord::"))
            ctx.fire("N14", sf, t.start, t.text)
            k += 1
            continue
        # N11: assert_eq!(A, B) -> assert!((A) == (B)); assert_ne! -> != (definition of the macros, message dropped)
        if t.kind == "id" and t.text in ("assert_eq", "assert_ne", "debug_assert_eq") and toks[k + 1].text == "!" \
                and toks[k + 2].text == "(":
            close = pair[k + 2]
            j = k + 3
            comma = None
            while j < close:
                if toks[j].text in ("(", "[", "{"):
                    j = pair[j] + 1
                    continue
                if toks[j].text == ",":
                    comma = j
                    break
                j += 1
            if comma is not None:
                # second argument ends at next top-level comma or close
                j2 = comma + 1
                end2 = close
                while j2 < close:
                    if toks[j2].text in ("(", "[", "{"):
                        j2 = pair[j2] + 1
                        continue
                    if toks[j2].text == ",":
                        end2 = j2
                        break
                    j2 += 1
                A = sf.text[toks[k + 3].start:toks[comma - 1].end]
                B = sf.text[toks[comma + 1].start:toks[end2 - 1].end]
                op = "!=" if t.text == "assert_ne" else "=="
                edits.append(Edit(t.start, toks[close].end, f"assert!(({A}) {op} ({B}))"))
                ctx.fire("N11", sf, t.start, t.text)
                k = close + 1
                continue
        # N6: Err(<pure enum path>.into())  ->  Err(opaque_error(()))   (no evaluation is dropped: a path has none)
        if t.kind == "id" and t.text == "Err" and toks[k + 1].text == "(":
            close = pair[k + 1]
            inner = toks[k + 2:close]
            def pure_path_or_literal_ctor(ts):
                # Path  |  Path(lit, lit, ..)   -- nothing that could be evaluated with an effect or a panic
                j_ = 0
                while j_ < len(ts) and (ts[j_].kind == "id" or ts[j_].text == "::"):
                    j_ += 1
                if j_ == len(ts):
                    return j_ > 0
                if ts[j_].text != "(" or ts[-1].text != ")":
                    return False
                # arguments that cannot panic or have effects: literals, field paths, .clone()/.to_string()/.len(),
                # format!(..) over such arguments. No indexing, no arithmetic, no unwrap.
                ok_ids_after_dot = {"clone", "to_string", "len", "into", "to_owned"}
                for n_, x in enumerate(ts[j_ + 1:-1]):
                    prev = ts[j_ + n_].text
                    if x.kind in ("str", "num", "char"):
                        continue
                    if x.text in (",", ".", "::", "(", ")", "&", "!", "*"):
                        continue
                    if x.kind == "id":
                        if prev == "." and x.text not in ok_ids_after_dot and ts[j_ + n_ + 2].text == "(":
                            return False
                        if x.text in ("unwrap", "expect"):
                            return False
                        continue
                    return False
                return True
            if len(inner) >= 5 and [x.text for x in inner[-4:]] == [".", "into", "(", ")"] \
                    and pure_path_or_literal_ctor(inner[:-4]):
                edits.append(Edit(toks[k + 2].start, toks[close - 1].end, "opaque_error(())"))
                ctx.fire("N6", sf, t.start, "Err(path.into())")
                k = close + 1
                continue
        # N17: todo!() / unimplemented!() / unreachable!(..) / panic!(..) -> vx_panics(): a call whose precondition is `false`, so that
        # reaching the macro is a proof obligation ("this point is never reached") instead of an unsupported construct
        if t.kind == "id" and t.text in ("todo", "unimplemented", "unreachable", "panic") and toks[k + 1].text == "!" \
                and toks[k + 2].text in ("(", "[", "{") and (k == 0 or toks[k - 1].text not in (".", "::")):
            close = pair[k + 2]
            edits.append(Edit(t.start, toks[close].end, "vx_panics()"))
            ctx.fire("N17", sf, t.start, t.text + "!")
            k = close + 1
            continue
        # N6: log::x!(..) -> (); format!/anyhow!/… handled at listed sites via opts
        if t.kind == "id" and t.text == "log" and toks[k + 1].text == "::" and toks[k + 3].text == "!":
            close = pair[k + 4]
            args = macro_positional_args(sf, k + 4)
            repl = "{ " + " ".join(f"let _ = {x};" for x in args) + " }"
            end = toks[close].end
            edits.append(Edit(t.start, end, repl if args else "{}"))
            ctx.fire("N6", sf, t.start, "log")
            k = close + 1
            continue
        k += 1
    return edits


def ensure_pub(sf, it, in_trait_impl=False):
    """N1: edits that add `pub` to an item (and to the fields of a struct) when it has none."""
    toks, pair = sf.toks, sf.pair
    edits = []
    k = it.tok_lo
    while toks[k].text == "#":
        k = pair[k + 1] + 1
    if it.kind in ("fn", "const", "static", "struct", "enum", "mod", "type", "union", "trait") and not in_trait_impl:
        if toks[k].text != "pub":
            edits.append(Edit(toks[k].start, toks[k].start, "pub "))
    if it.kind == "struct" and it.body_open is None:
        # tuple struct: `struct Name<..>(T1, T2);`
        j = k
        while j < it.tok_hi and toks[j].text != "(":
            j += 1
        if j < it.tok_hi:
            close = pair[j]
            q = j + 1
            start_field = True
            depth = 0
            while q < close:
                t = toks[q]
                if start_field and t.text != "pub":
                    edits.append(Edit(t.start, t.start, "pub "))
                start_field = False
                if t.text in ("(", "["):
                    q = pair[q] + 1
                    continue
                if t.text == "<":
                    depth += 1
                elif t.text == ">":
                    depth -= 1
                elif t.text == "," and depth == 0:
                    start_field = True
                q += 1
    if it.kind == "struct" and it.body_open is not None:
        j = it.body_open + 1
        expect_field = True
        while j < it.body_close:
            t = toks[j]
            if t.text in ("(", "[", "{"):
                j = pair[j] + 1
                continue
            if expect_field:
                if t.text == "#":
                    j = pair[j + 1] + 1
                    continue
                if t.text == "pub":
                    expect_field = False
                elif t.kind == "id" and toks[j + 1].text == ":":
                    edits.append(Edit(t.start, t.start, "pub "))
                    expect_field = False
            if t.text == ",":
                # generic args contain commas: only depth-0 commas outside <> start a new field
                expect_field = True
            if t.text == "<":
                # skip generic argument list
                depth = 1
                j += 1
                while j < it.body_close and depth:
                    if toks[j].text == "<":
                        depth += 1
                    elif toks[j].text == ">":
                        depth -= 1
                    elif toks[j].text == ">>":
                        depth -= 2
                    elif toks[j].text in ("(", "["):
                        j = pair[j]
                    j += 1
                continue
            j += 1
    return edits


def macro_positional_args(sf, open_idx):
    """positional arguments after the format string of a format-like macro call"""
    toks, pair = sf.toks, sf.pair
    close = pair[open_idx]
    args, cur_start, first = [], None, True
    k = open_idx + 1
    parts = []
    start = k
    while k < close:
        if toks[k].text in ("(", "[", "{"):
            k = pair[k] + 1
            continue
        if toks[k].text == ",":
            parts.append((start, k))
            start = k + 1
        k += 1
    if start < close:
        parts.append((start, close))
    for n, (s, e) in enumerate(parts):
        if n == 0:
            continue  # format string
        if s >= e:
            continue
        txt = sf.text[toks[s].start:toks[e - 1].end]
        if re.match(r"^\w+\s*=", txt) and not txt.startswith("=="):
            txt = txt.split("=", 1)[1].strip()
        args.append(txt)
    return args


# --------------------------------------------------------------------------------------------
# function handling
# --------------------------------------------------------------------------------------------

LOOP_KW = ("for", "while", "loop")


def find_loops(sf, body_open, body_close):
    """Loops of a function body in source order (incl. nested): for / while / loop keywords and
    `(range).for_each(|v| ..)` / `(range).rev().for_each(|v| ..)` call sites (which rule N4 turns into loops).
    Returns list of (kw_tok_idx, contract_insert_off, body_start_off, body_end_off, kind)."""
    toks, pair = sf.toks, sf.pair
    out = []
    k = body_open + 1
    while k < body_close:
        t = toks[k]
        if t.kind == "id" and t.text in LOOP_KW and toks[k - 1].text not in (".", "::") \
                and not (t.text == "for" and toks[k - 1].text in ("impl",)) \
                and not (t.text == "for" and toks[k + 1].text == "<"):
            j = k + 1
            while j < body_close and toks[j].text != "{":
                j = pair[j] + 1 if toks[j].text in ("(", "[") else j + 1
            out.append((k, toks[j].start, toks[j].end, toks[pair[j]].start, t.text))
        elif t.kind == "id" and t.text == "for_each" and toks[k - 1].text == "." and toks[k + 1].text == "(" \
                and toks[k + 2].text == "|" and (toks[k + 4].text == "|" or (toks[k + 4].text == ":" and toks[k + 6].text == "|")) and toks[k - 2].text == ")":
            call_open = k + 1
            boff = 4 if toks[k + 4].text == "|" else 6
            out.append((k, toks[call_open + boff].start, toks[call_open + boff].start, toks[pair[call_open]].start, "for_each"))
        k += 1
    return out


def find_anchor(sf, lo_off, hi_off, anchor, nth, what):
    """Find nth occurrence of anchor text (whitespace-insensitive token sequence match) inside
    [lo_off,hi_off).  Returns (start_off, end_off)."""
    atoks = [t.text for t in lex(anchor)]
    if not atoks:
        raise UnitSyntaxError(f"{what}: anchor {anchor!r} has no tokens (comments cannot be anchors)")
    a, b = tok_range(sf, lo_off, hi_off)
    toks = sf.toks
    count = 0
    for k in range(a, b - len(atoks) + 1):
        if toks[k].text == atoks[0] and all(toks[k + m].text == atoks[m] for m in range(1, len(atoks))):
            count += 1
            if count == nth:
                return toks[k].start, toks[k + len(atoks) - 1].end
    raise LostAnchor(f"{what}: anchor {anchor!r} (occurrence {nth}) not found")


def split_match_arms(sf, open_idx):
    """arms of the match whose `{` is token open_idx: list of (pat_lo, pat_hi, body_lo, body_hi, is_block)"""
    toks, pair = sf.toks, sf.pair
    close = pair[open_idx]
    arms = []
    k = open_idx + 1
    while k < close:
        pat_lo = k
        while k < close and toks[k].text != "=>":
            k = pair[k] + 1 if toks[k].text in ("(", "[", "{") else k + 1
        if k >= close:
            break
        pat_hi = k
        k += 1
        if toks[k].text == "{":
            body_lo, body_hi = k, pair[k]
            k = pair[k] + 1
            if k < close and toks[k].text == ",":
                k += 1
            arms.append((pat_lo, pat_hi, body_lo, body_hi, True))
        else:
            body_lo = k
            while k < close and toks[k].text != ",":
                k = pair[k] + 1 if toks[k].text in ("(", "[", "{") else k + 1
            arms.append((pat_lo, pat_hi, body_lo, k - 1, False))
            k += 1
    return arms


def locate_arm(sf, fn_item, state_pat, ch_pat, what):
    toks, pair = sf.toks, sf.pair
    # outer: first `match` in the function body
    k = fn_item.body_open + 1
    while k < fn_item.body_close and toks[k].text != "match":
        k += 1
    j = k
    while toks[j].text != "{":
        j = pair[j] + 1 if toks[j].text in ("(", "[") else j + 1
    st = None
    for pl, ph, bl, bh, blk in split_match_arms(sf, j):
        ptxt = rustlex.norm_ws(sf.text[toks[pl].start:toks[ph - 1].end])
        if ptxt.startswith(rustlex.norm_ws(state_pat)):
            st = (bl, bh, blk)
            break
    if st is None:
        raise LostAnchor(f"{what}: state arm {state_pat} not found")
    bl, bh, st_is_block = st
    if ch_pat.strip() == "*":
        # STATE SLICING: the whole block of the state arm is the body of the synthetic method
        if not st_is_block:
            raise UnitSyntaxError(f"{what}: state arm {state_pat} is not a block")
        outer_close = pair[j]
        after = sf.text[toks[outer_close + 1].start:toks[fn_item.body_close - 1].end] if fn_item.body_close - 1 > outer_close else ""
        q = fn_item.tok_lo
        while toks[q].text != "fn":
            q += 1
        popen = q + 2
        params = sf.text[toks[popen + 1].start:toks[pair[popen] - 1].end]
        a = pair[popen] + 1
        ret = sf.text[toks[a + 1].start:toks[fn_item.body_open - 1].end] if toks[a].text == "->" else "()"
        fake = rustlex.Item("fn", "arm", toks[bl].start, toks[bh].end, toks[bl].start, bl, bh + 1, bl, bh, "")
        return dict(item=fake, pre="", pre_line=0, tail=after.strip(), tail_line=sf.line_of(toks[outer_close].end), params=params, ret=ret)
    # inner: first `match ch {` inside the state arm (at any nesting depth, e.g. inside `return { .. match ch {..} };`)
    k = bl if not st_is_block else bl + 1
    inner = None
    inner_depth0 = True
    depth_stack = 0
    while k <= bh:
        if toks[k].text == "match" and toks[k + 1].text == "ch" and toks[k + 2].text == "{":
            inner = k
            break
        if toks[k].text in ("(", "[", "{"):
            depth_stack += 1
        elif toks[k].text in (")", "]", "}"):
            depth_stack -= 1
        k += 1
    inner_depth0 = st_is_block and depth_stack == 0
    if inner is None:
        raise LostAnchor(f"{what}: `match ch` not found in state arm {state_pat}")
    io = inner + 2
    found = None
    for pl, ph, abl, abh, blk in split_match_arms(sf, io):
        ptxt = rustlex.norm_ws(sf.text[toks[pl].start:toks[ph - 1].end])
        ptoks = "".join(t.text for t in toks[pl:ph])
        if ptoks == "".join(t.text for t in lex(ch_pat)):
            found = (abl, abh, blk)
            break
    if found is None:
        raise LostAnchor(f"{what}: arm {ch_pat} not found in state arm {state_pat}")
    abl, abh, blk = found
    if not blk:
        raise UnitSyntaxError(f"{what}: arm {ch_pat} is an expression arm (its callee carries the contract)")
    close_inner = pair[io]
    if inner_depth0:
        pre = sf.text[toks[bl + 1].start:toks[inner - 1].end] if inner > bl + 1 else ""
        tail = sf.text[toks[close_inner + 1].start:toks[bh - 1].end] if bh - 1 > close_inner else ""
    else:
        pre, tail = "", ""       # nested / expression state arm: the arm block's value is the result
    q = fn_item.tok_lo
    while toks[q].text != "fn":
        q += 1
    popen = q + 2
    params = sf.text[toks[popen + 1].start:toks[pair[popen] - 1].end]
    a = pair[popen] + 1
    ret = sf.text[toks[a + 1].start:toks[fn_item.body_open - 1].end] if toks[a].text == "->" else "()"
    if inner_depth0:
        # after the state arm block the outer match ends; code after the outer match is the function's fall-through result
        outer_close = pair[j]
        after = sf.text[toks[outer_close + 1].start:toks[fn_item.body_close - 1].end] if fn_item.body_close - 1 > outer_close else ""
        tail = (tail + "\n" + after).strip()
    fake = rustlex.Item("fn", "arm", toks[abl].start, toks[abh].end, toks[abl].start, abl, abh + 1, abl, abh, "")
    return dict(item=fake, pre=pre, pre_line=sf.line_of(toks[bl + 1].start), tail=tail,
                tail_line=sf.line_of(toks[close_inner + 1].start) if tail else 0, params=params, ret=ret)


def clause_block(kind, clauses, fn_label, indent="    "):
    """Return list of (text_line, origin) for a requires/ensures/invariant block."""
    segs = [Seg(f"\n{indent}{kind}\n", ("ins", fn_label, kind, None))]
    for n, (tag, text) in enumerate(clauses):
        lines = text.split("\n")
        body = "\n".join(indent + "    " + x.strip() if i else indent + "    " + x for i, x in enumerate(lines))
        segs.append(Seg(body + ",\n", ("ins", fn_label, f"{kind}[{n}]", tag, text)))
    return segs


def build_fn(ctx, unit, fs):
    file_rel, _, rest = fs.path.partition("::")
    file_rel = file_rel.strip()
    elems0 = [e.strip() for e in rest.split("::")]
    # re-join path elements that were split on '::' inside an impl header (`impl<..> std::fmt::Display for T`)
    elems = []
    for e_ in elems0:
        if elems and elems[-1].startswith("impl") and not re.match(r"^(fn|impl|trait|mod|lazy|const|static|struct|enum)\b", e_):
            elems[-1] += "::" + e_
        else:
            elems.append(e_)
    sf = ctx.sf(file_rel)
    lazy = None
    if len(elems) == 1 and elems[0].startswith("lazy "):
        # LAZY: `static ref NAME: TYPE = { BLOCK };` inside a lazy_static! { .. } item becomes `fn NAME__init() -> TYPE BLOCK`
        # (the initialiser block is real code; what is dropped is the lazy_static machinery around it)
        lname = elems[0][5:].strip()
        toks_ = sf.toks
        it = None
        for k_ in range(len(toks_) - 4):
            if toks_[k_].text == "static" and toks_[k_ + 1].text == "ref" and toks_[k_ + 2].text == lname and toks_[k_ + 3].text == ":":
                e_ = k_ + 4
                while toks_[e_].text != "=":
                    e_ = sf.pair[e_] + 1 if toks_[e_].text in ("(", "[") else e_ + 1
                lty = sf.text[toks_[k_ + 4].start:toks_[e_ - 1].end]
                if toks_[e_ + 1].text != "{":
                    raise UnitSyntaxError(f"{fs.path}: lazy initialiser of {lname} is not a block")
                bl_, bh_ = e_ + 1, sf.pair[e_ + 1]
                it = rustlex.Item("fn", lname + "__init", toks_[bl_].start, toks_[bh_].end, toks_[bl_].start, bl_, bh_ + 1, bl_, bh_, "")
                lazy = dict(item=it, pre="", pre_line=0, tail="", tail_line=0, params="", ret=lty)
                break
        if it is None:
            raise LostAnchor(f"lazy static {lname} not found in {file_rel}")
    else:
        it = sf.find(elems)
    if it is None or it.kind != "fn":
        raise LostAnchor(f"function {fs.path} not found")
    toks, pair = sf.toks, sf.pair
    fn_label = fs.opts.get("as") or it.name
    parent_impl = elems[-2] if len(elems) > 1 else None
    # signature tokens
    q = it.tok_lo
    while not lazy and toks[q].text != "fn":
        q += 1
    arm = lazy
    if lazy:
        parent_impl = None
    if fs.opts.get("arm_state"):
        # ARM SLICING: one arm `PAT => { BLOCK }` of the inner `match ch` of one state arm of a big dispatcher becomes a
        # synthetic method with the dispatcher's signature. What this drops: the dispatch itself (which arm runs for which
        # state / character) is not verified; fall-through code after the inner match (TAIL) is appended.
        arm = locate_arm(sf, it, fs.opts["arm_state"].replace("~", " "), fs.opts["arm_pat"].replace("~", " ").replace("%7E", "~"), fs.path)
        real_it = it
        it = arm["item"]
        fn_label = fs.opts.get("as") or ("arm_" + re.sub(r"\W+", "_", fs.opts["arm_state"] + "_" + fs.opts["arm_pat"]))
        it.name = fn_label
        parent_impl = (fs.opts.get("impl_as") or parent_impl or "").replace("~", " ") or None
    if fs.opts.get("slice_loop"):
        # BLOCK SLICING: the body block of the N-th loop of a function becomes a synthetic function whose parameters are
        # the variables the block reads (declared in the unit: sparams=, sret=, stail=). What this drops: the loops around
        # the block and every statement replaced by an O1 rewrite inside it; the block text itself is the real code.
        lps = find_loops(sf, it.body_open, it.body_close)
        ordn = int(fs.opts["slice_loop"])
        if ordn > len(lps):
            raise LostAnchor(f"{fs.path}: slice_loop #{ordn} not found (function has {len(lps)} loops)")
        kw, _ins, _blo, _bhi, lkind = lps[ordn - 1]
        if lkind == "for_each":
            raise UnitSyntaxError("slice_loop on for_each is not supported")
        j = kw + 1
        while toks[j].text != "{":
            j = sf.pair[j] + 1 if toks[j].text in ("(", "[") else j + 1
        bl, bh = j, sf.pair[j]
        fake = rustlex.Item("fn", "slice", toks[bl].start, toks[bh].end, toks[bl].start, bl, bh + 1, bl, bh, "")
        arm = dict(item=fake, pre="", pre_line=0, tail=fs.opts.get("stail", "").replace("~", " "), tail_line=sf.line_of(toks[bh].start),
                   params=fs.opts["sparams"].replace("~", " "), ret=fs.opts.get("sret", "()").replace("~", " "))
        it = fake
        fn_label = fs.opts.get("as") or f"{it.name}_loop{ordn}_body"
        it.name = fn_label
        parent_impl = (fs.opts.get("impl_as") or parent_impl or "").replace("~", " ") or None
    tail_cut = None
    tail_cut2 = None
    if fs.opts.get("slice_tail"):
        # TAIL SLICING: the statements from an anchor to the end of the function body become a synthetic function whose
        # parameters are the variables they read (sparams=, sret=). The head half of the same function is extracted separately
        # with the same text replaced by a call to this function (O1 to_body_end=1): the function is verified in two halves
        # that meet at the tail's contract. What this drops: nothing of the text; the two halves are separate Verus functions.
        anchor_ = fs.opts["slice_tail"].replace("~", " ")
        if anchor_.startswith("after_loop "):
            # the slice starts behind the N-th loop of the function (an anchor that does not quote the text of the slice itself)
            lps_ = find_loops(sf, it.body_open, it.body_close)
            n_ = int(anchor_.split()[1])
            if n_ > len(lps_):
                raise LostAnchor(f"{fs.path}: slice_tail after_loop {n_}: function has {len(lps_)} loops")
            j_ = lps_[n_ - 1][0] + 1
            while toks[j_].text != "{":
                j_ = sf.pair[j_] + 1 if toks[j_].text in ("(", "[") else j_ + 1
            s_ = toks[sf.pair[j_]].end
        else:
            s_, _e = find_anchor(sf, toks[it.body_open].end, toks[it.body_close].start, anchor_, int(fs.opts.get("slice_nth", 1)), fs.path)
        bl, bh = it.body_open, it.body_close
        fake = rustlex.Item("fn", "slice", toks[bl].start, toks[bh].end, toks[bl].start, bl, bh + 1, bl, bh, "")
        arm = dict(item=fake, pre="", pre_line=0, tail=fs.opts.get("stail", "").replace("~", " "), tail_line=sf.line_of(toks[bh].start),
                   params=fs.opts["sparams"].replace("~", " "), ret=fs.opts.get("sret", "()").replace("~", " "))
        tail_cut = (toks[bl].end, s_)
        tail_cut2 = None
        if fs.opts.get("slice_end") == "@block":
            # MIDDLE: the slice ends where the innermost block that contains its first statement ends
            a_tok = 0
            while toks[a_tok].start < s_:
                a_tok += 1
            best = None
            for j_ in range(bl, a_tok):
                if toks[j_].text == "{" and sf.pair[j_] > a_tok:
                    best = j_
            if best is None or best == bl:
                tail_cut2 = None
            else:
                tail_cut2 = (toks[sf.pair[best]].start, toks[bh].start)
        elif fs.opts.get("slice_end"):
            # MIDDLE: the slice ends before a second anchor instead of at the end of the body
            e_s, _e2 = find_anchor(sf, s_, toks[bh].start, fs.opts["slice_end"].replace("~", " "), 1, fs.path)
            tail_cut2 = (e_s, toks[bh].start)
        fn_label = fs.opts.get("as") or f"{it.name}__tail"
        it = fake
        it.name = fn_label
        # anchors of rewrites and proof hints of a slice are searched inside the slice only
        it.slice_lo = tail_cut[1]
        it.slice_hi = tail_cut2[0] if tail_cut2 else toks[bh].start
        parent_impl = (fs.opts.get("impl_as", parent_impl) or "").replace("~", " ") or None
    has_body = it.body_open is not None
    sig_end_tok = it.body_open if has_body else it.tok_hi - 1   # `{` or `;`
    ctx.foreach_iter = {}
    if has_body and fs.loops:
        pre_loops = find_loops(sf, it.body_open, it.body_close)
        if tail_cut:   # loop ordinals of a tail slice count the loops of the slice only
            pre_loops = [l_ for l_ in pre_loops if toks[l_[0]].start >= tail_cut[1] and (not tail_cut2 or toks[l_[0]].start < tail_cut2[0])]
        for ordn_, ls_ in fs.loops.items():
            if 1 <= ordn_ <= len(pre_loops) and pre_loops[ordn_ - 1][4] == "for_each" and ls_.get("iter"):
                ctx.foreach_iter[pre_loops[ordn_ - 1][0]] = ls_["iter"]
    edits = common_rewrites(ctx, sf, it.tok_lo, it.tok_hi, "fn", fs.opts)
    if fs.opts.get("slice_loop"):
        # BLOCK SLICE of a loop body: a `continue` of the sliced loop itself ends the body = `return <tail value>` of the synthetic function
        # (automatic, so that a change which adds an early `continue` to the body stays inside the accepted subset). A `break` cannot be
        # expressed (what follows the loop is not part of the slice): rustc rejects it and the unit is undecided.
        spans = []
        for l_ in find_loops(sf, it.body_open, it.body_close):
            if l_[4] != "for_each":
                j_ = l_[0] + 1
                while toks[j_].text != "{":
                    j_ = pair[j_] + 1 if toks[j_].text in ("(", "[") else j_ + 1
                spans.append((j_, pair[j_]))
        for t_ in range(it.body_open, it.body_close):
            if toks[t_].kind == "id" and toks[t_].text == "continue" and not any(a_ < t_ < b_ for a_, b_ in spans) \
                    and toks[t_ + 1].text == ";":
                tl_ = fs.opts.get("stail", "").replace("~", " ")
                edits.append(Edit(toks[t_].start, toks[t_].end, ("return " + tl_) if tl_ else "return"))
                ctx.fire("SLICE-continue", sf, toks[t_].start, "continue of the sliced loop -> return")
    if tail_cut and fs.opts.get("outer_jumps"):
        # a `continue` / `break` of the slice that belongs to a loop AROUND the slice ends the slice: it becomes `return <value>`
        # (outer_jumps=Ok(())). What this drops: whether the outer loop continues or stops afterwards.
        lo_o, hi_o = tail_cut[1], (tail_cut2[0] if tail_cut2 else toks[it.body_close].start)
        spans = []
        for l_ in find_loops(sf, it.body_open, it.body_close):
            if lo_o <= toks[l_[0]].start < hi_o and l_[4] != "for_each":
                j_ = l_[0] + 1
                while toks[j_].text != "{":
                    j_ = pair[j_] + 1 if toks[j_].text in ("(", "[") else j_ + 1
                spans.append((j_, pair[j_]))
        for t_ in range(it.body_open, it.body_close):
            if toks[t_].kind == "id" and toks[t_].text in ("continue", "break") and lo_o <= toks[t_].start < hi_o \
                    and not any(a_ < t_ < b_ for a_, b_ in spans):
                edits.append(Edit(toks[t_].start, toks[t_].end, "return " + fs.opts["outer_jumps"].replace("~", " ")))
                ctx.fire("TAIL-jump", sf, toks[t_].start, f"{toks[t_].text} of an enclosing loop -> return")
    if tail_cut:
        edits = [e_ for e_ in edits if e_.start >= tail_cut[1] and (not tail_cut2 or e_.end <= tail_cut2[0])]
        edits.append(Edit(tail_cut[0], tail_cut[1], "\n"))
        if tail_cut2:
            edits.append(Edit(tail_cut2[0], tail_cut2[1], "\n"))
    in_trait_impl = bool(parent_impl) and (parent_impl.startswith("trait") or " for " in (" " + parent_impl + " "))
    if not arm:
        edits += ensure_pub(sf, it, in_trait_impl)
    # drop leading doc comments: tokens don't include comments; text before first token is not copied
    start_off = toks[it.tok_lo].start
    if fs.opts.get("rename_fn"):
        # N12: alpha-renaming of an inherent method whose name collides with a trait method of the same type
        edits.append(Edit(toks[q + 1].start, toks[q + 1].end, fs.opts["rename_fn"]))
        ctx.fire("N12", sf, toks[q + 1].start, f"{toks[q + 1].text} -> {fs.opts['rename_fn']}")
        fn_label = fs.opts["rename_fn"]
    # name the return value
    ret = fs.opts.get("ret", "r") if not arm else "-"
    k = q if not arm else sig_end_tok
    arrow = None
    while k < sig_end_tok:
        if toks[k].text in ("(", "[", "<") and toks[k].text != "<":
            k = pair[k] + 1
            continue
        if toks[k].text == "->":
            arrow = k
        if toks[k].kind == "id" and toks[k].text == "where":
            break
        k += 1
    ty_end_tok = k  # token index where return type ends (where / { / ;)
    if arrow is not None and ret != "-":
        ty_lo = toks[arrow + 1].start
        ty_hi = toks[ty_end_tok - 1].end
        edits.append(Edit(ty_lo, ty_lo, f"({ret}: ", ("src", sf.path, sf.line_of(ty_lo), "ret-name")))
        edits.append(Edit(ty_hi, ty_hi, ")", ("src", sf.path, sf.line_of(ty_hi), "ret-name")))
    # N9: impl Trait params -> named generics
    if fs.opts.get("n9") and not arm:
        # n9=pos:P  (param name : generic name)
        n9_generics = []
        for spec in fs.opts["n9"].split(","):
            pname, gname = spec.split(":")
            popen = q + 2
            if toks[popen].text == "<":
                raise UnitSyntaxError("N9 on generic fn not supported")
            pclose = pair[popen]
            kk = popen + 1
            done = False
            while kk < pclose:
                if toks[kk].text == pname and toks[kk + 1].text == ":" and toks[kk + 2].text == "impl":
                    # type extends to next ',' at depth 0 or pclose
                    j = kk + 3
                    depth = 0
                    while j < pclose:
                        if toks[j].text in ("(", "["):
                            j = pair[j] + 1
                            continue
                        if toks[j].text == "<":
                            depth += 1
                        elif toks[j].text == ">":
                            depth -= 1
                        elif toks[j].text == "," and depth == 0:
                            break
                        j += 1
                    bound = sf.text[toks[kk + 3].start:toks[j - 1].end]
                    edits.append(Edit(toks[kk + 2].start, toks[j - 1].end, gname))
                    n9_generics.append(f"{gname}: {bound}")
                    ctx.fire("N9", sf, toks[kk].start, f"{pname}: impl {bound} -> {gname}")
                    done = True
                    break
                kk += 1
            if not done:
                raise LostAnchor(f"{fs.path}: N9 parameter {pname} not found")
        edits.append(Edit(toks[q + 1].end, toks[q + 1].end, "<" + ", ".join(n9_generics) + ">"))
    # T6: opaque parameter type: pty=name:Type (the parameter's type is outside Verus; every use of it in the body
    # must be covered by an O1 rewrite, otherwise rustc rejects the unit)
    if fs.opts.get("pty") and not arm:
        for spec in fs.opts["pty"].split(","):
            pname, nty = spec.split(":")
            nty = nty.replace("~", " ")
            popen = q + 2
            pclose = pair[popen]
            kk = popen + 1
            done = False
            while kk < pclose:
                if toks[kk].text == pname and toks[kk + 1].text == ":":
                    j = kk + 2
                    depth = 0
                    while j < pclose:
                        if toks[j].text in ("(", "["):
                            j = pair[j] + 1
                            continue
                        if toks[j].text == "<":
                            depth += 1
                        elif toks[j].text == ">":
                            depth -= 1
                        elif toks[j].text == "," and depth == 0:
                            break
                        j += 1
                    oldty = sf.text[toks[kk + 2].start:toks[j - 1].end]
                    edits.append(Edit(toks[kk + 2].start, toks[j - 1].end, nty))
                    ctx.fire("T6", sf, toks[kk].start, f"parameter {pname}: {oldty} -> opaque {nty}")
                    done = True
                    break
                kk += 1
            if not done:
                raise LostAnchor(f"{fs.path}: T6 parameter {pname} not found")
    # contract clauses before body
    ins_off = toks[sig_end_tok].start
    spec_segs = []
    for h in fs.head:
        spec_segs.append(Seg("\n    " + h.strip() + "\n", ("ins", fn_label, "head", None)))
    if fs.requires:
        spec_segs += clause_block("requires", fs.requires, fn_label)
    if fs.ensures:
        spec_segs += clause_block("ensures", fs.ensures, fn_label)
    for h in getattr(fs, "decreases", []):
        spec_segs.append(Seg("    decreases " + h.strip() + "\n", ("ins", fn_label, "decreases", None)))
    # a single edit can carry only one origin: we emit multi-seg insertions through a marker
    multi = []   # (offset, [Seg], prio)
    if spec_segs:
        multi.append((ins_off, spec_segs, 0))
    if has_body and not fs.opts.get("external_body"):
        if fs.opts.get("hide"):
            # hide=f,g : the definitions of these spec functions stay folded in this function body (the function only hands the facts on)
            hs = "".join(f"hide({n}); " for n in fs.opts["hide"].split(","))
            multi.append((toks[it.body_open].end, [Seg("\n" + hs + "\n", ("ins", fn_label, "hide", None))], 0.5))
        if unit.autoproof and not fs.opts.get("noauto"):
            multi.append((toks[it.body_open].end, [Seg("\nproof { " + " ".join(unit.autoproof) + " }\n", ("ins", fn_label, "autoproof", None))], 0.9))
        for ls_ in fs.loops.values():
            if unit.autoinv and not ls_.get("auto_done"):
                ls_["invariant"] = [(None, x) for x in unit.autoinv] + ls_["invariant"]
                ls_["auto_done"] = True
    if has_body:
        loops = find_loops(sf, it.body_open, it.body_close)
        if tail_cut:
            loops = [l_ for l_ in loops if toks[l_[0]].start >= tail_cut[1] and (not tail_cut2 or toks[l_[0]].start < tail_cut2[0])]
        for ordn, ls in sorted(fs.loops.items()):
            if ordn < 1 or ordn > len(loops):
                raise LostAnchor(f"{fs.path}: loop #{ordn} not found (function has {len(loops)} loops)")
            kw, ins_off, body_lo_off, body_hi_off, lkind = loops[ordn - 1]
            want_kw = ls["opts"].get("kw")
            if want_kw and toks[kw].text != want_kw:
                raise LostAnchor(f"{fs.path}: loop #{ordn} is `{toks[kw].text}`, contract expects `{want_kw}`")
            segs = []
            for mode, cl in ls["extra"]:
                if mode == "invariant_except_break":
                    segs += clause_block(mode, cl, fn_label + f"/loop{ordn}", "        ")
            if ls["invariant"]:
                segs += clause_block("invariant", ls["invariant"], fn_label + f"/loop{ordn}", "        ")
            for mode, cl in ls["extra"]:
                if mode != "invariant_except_break":
                    segs += clause_block(mode, cl, fn_label + f"/loop{ordn}", "        ")
            if ls["decreases"]:
                segs.append(Seg("        " + ls["decreases"] + "\n", ("ins", fn_label + f"/loop{ordn}", "decreases", None)))
            multi.append((ins_off, segs, 0))
            if ls["iter"] and lkind == "for_each":
                pass    # the ghost iterator name is emitted by rule N4 itself
            elif ls["iter"]:
                if toks[kw].text != "for":
                    raise LostAnchor(f"{fs.path}: loop #{ordn} is not a for loop")
                # for PAT in EXPR  ->  for PAT in it: EXPR
                j = kw + 1
                while toks[j].text != "in":
                    j = pair[j] + 1 if toks[j].text in ("(", "[") else j + 1
                multi.append((toks[j].end, [Seg(f" {ls['iter']}:", ("ins", fn_label + f"/loop{ordn}", "iter-name", None))], 0))
        # if any anchored hint of this function lost its anchor, all proof hints of the function are dropped (they may depend on
        # each other); failures of the function are then undecided
        proofs_to_use = fs.proofs
        for where, arg, nth, text, popts in fs.proofs:
            if where in ("before", "after"):
                try:
                    find_anchor(sf, getattr(it, 'slice_lo', toks[it.body_open].end), getattr(it, 'slice_hi', toks[it.body_close].start), arg, nth, fs.path)
                except LostAnchor as ex:
                    ctx.dropped_hints.append((fn_label, str(ex)))
                    # raw hints declare the ghost variables that loop contracts name: they stay (where their own anchor exists),
                    # otherwise the unit would not even compile and every other function of it would be undecided too
                    proofs_to_use = [p_ for p_ in fs.proofs if p_[4].get("raw")]
                    break
        for where, arg, nth, text, popts in proofs_to_use:
            label = f"proof:{where}:{arg}"
            if where in ("before", "after") and popts.get("all"):
                n_ = 1
                raw = popts.get("raw")
                body = text if raw else "proof {\n" + text + "\n}"
                while True:
                    try:
                        s, e = find_anchor(sf, getattr(it, 'slice_lo', toks[it.body_open].end), getattr(it, 'slice_hi', toks[it.body_close].start), arg, n_, fs.path)
                    except LostAnchor:
                        if n_ == 1:
                            raise
                        break
                    multi.append((s if where == "before" else e, [Seg("\n" + body + "\n", ("ins", fn_label, label + f"#{n_}", popts.get("tags")))], 1))
                    n_ += 1
                continue
            if where in ("before", "after"):
                try:
                    s, e = find_anchor(sf, getattr(it, 'slice_lo', toks[it.body_open].end), getattr(it, 'slice_hi', toks[it.body_close].start), arg, nth, fs.path)
                except LostAnchor as ex:
                    # a proof hint lost its anchor: drop the hint and let the verifier try without it; failures in this
                    # function are then reported as undecided, never as violations
                    ctx.dropped_hints.append((fn_label, str(ex)))
                    continue
                off = s if where == "before" else e
            elif where == "body_start":
                off = toks[it.body_open].end
            elif where == "body_end":
                off = toks[it.body_close].start
            elif where in ("loop_body_start", "loop_body_end", "loop_after"):
                ordn = int(arg)
                if ordn > len(loops):
                    raise LostAnchor(f"{fs.path}: loop #{ordn} not found")
                kw, ins_off, body_lo_off, body_hi_off, lkind = loops[ordn - 1]
                off = body_lo_off if where == "loop_body_start" else body_hi_off
                if where == "loop_after":
                    if lkind == "for_each":
                        raise UnitSyntaxError("loop_after on a for_each loop is not supported")
                    off = body_hi_off + 1
            else:
                raise UnitSyntaxError(f"unknown proof position {where}")
            raw = popts.get("raw")
            body = text if raw else "proof {\n" + text + "\n}"
            multi.append((off, [Seg("\n" + body + "\n", ("ins", fn_label, label, popts.get("tags")))], 1))
        for rule, anchor, nth, ropts in fs.rewrites:
            if ropts.get("all"):
                n_ = 1
                while True:
                    try:
                        edits += site_rewrite(ctx, sf, it, rule, anchor, n_, ropts, fs.path)
                    except LostAnchor:
                        if n_ == 1:
                            raise
                        break
                    n_ += 1
            else:
                edits += site_rewrite(ctx, sf, it, rule, anchor, nth, ropts, fs.path)
    if fs.opts.get("external_body") and has_body:
        # T5: assumed-contract function: the body is not read by Verus; it is elided so that rustc does not need
        # the items it mentions. Listed in the evidence as an assumed contract.
        edits = [e for e in edits if e.end <= toks[it.body_open].start]
        multi = [m for m in multi if m[0] <= toks[it.body_open].start]
        edits.append(Edit(toks[it.body_open].end, toks[it.body_close].start, " unimplemented!() "))
        fs.attrs = list(fs.attrs) + ["#[verifier::external_body]"]
        ctx.fire("T5", sf, toks[it.body_open].start, f"body of assumed-contract fn {it.name} elided")
    if arm:
        # TAIL: statements after the inner match inside the state arm run when the arm block falls through
        if arm["tail"]:
            multi.append((toks[it.body_close].start, [Seg("\n" + arm["tail"] + "\n", ("src", sf.path, arm["tail_line"], "arm-tail"))], 9))
        if arm["pre"] and fs.opts.get("pre"):
            multi.append((toks[it.body_open].end, [Seg("\n" + arm["pre"] + "\n", ("src", sf.path, arm["pre_line"], "arm-pre"))], -9))
    segs = apply_edits_multi(sf, start_off, it.end, edits, multi)
    if arm:
        bind = fs.opts.get("bind")
        extra = (", " + bind.replace("~", " ")) if bind else ""
        sig = f"pub fn {fn_label}({arm['params']}{extra}) -> (r: {arm['ret']})"
        segs.insert(0, Seg(sig + " ", ("ins", fn_label, "arm-signature", None)))
        if tail_cut:
            ctx.fire("TAIL", sf, tail_cut[1], f"statements from {fs.opts['slice_tail']!r} to the end of the body sliced into {fn_label}")
        else:
            ctx.fire("ARM", sf, toks[it.body_open].start, f"arm {fs.opts.get('arm_state', 'loop ' + str(fs.opts.get('slice_loop')))} / {fs.opts.get('arm_pat', 'body')} sliced into {fn_label}")
    attrs = "".join(a + "\n" for a in fs.attrs)
    if fs.opts.get("attr"):
        attrs += fs.opts["attr"].replace("~", " ") + "\n"
    if attrs:
        segs.insert(0, Seg(attrs, ("ins", fn_label, "attr", None)))
    span_hash = hashlib.sha256(sf.text[it.start:it.end].encode()).hexdigest()[:12]
    info = dict(label=fn_label, file=file_rel, line=sf.line_of(toks[it.body_open].start if arm else toks[q].start), end_line=sf.line_of(it.end),
                impl=parent_impl, hash=span_hash, tags=(fs.opts.get("tags") or "").split(",") if fs.opts.get("tags") else [],
                n_requires=len(fs.requires), n_ensures=len(fs.ensures),
                n_loops=len(fs.loops), path=fs.path, trusted=bool(fs.opts.get("external_body")) and not fs.opts.get("proved_in"),
                proved_in=fs.opts.get("proved_in"))
    return segs, info, parent_impl, sf


def apply_edits_multi(sf, lo, hi, edits, multi):
    """Like apply_edits but also supports multi-segment insertions."""
    # convert multi insertions into placeholder edits
    allp = []
    # an automatic rewrite (N6, N7, N10 ...) that lies wholly inside a larger replaced region (O1, T4, T5) is subsumed by it
    big = [(e.start, e.end) for e in edits if e.end > e.start]
    def subsumed(e):
        return any(s <= e.start and e.end <= t and (t - s) > (e.end - e.start) and not (e.start == e.end and (e.start == s or e.end == t)) for s, t in big)
    edits = [e for e in edits if not subsumed(e)]
    for e in edits:
        allp.append((e.start, e.end, e.prio, "e", e))
    for off, segs, prio in multi:
        allp.append((off, off, prio, "m", segs))
    allp.sort(key=lambda x: (x[0], x[1], x[2]))
    out = []
    pos = lo
    for s, e, _, kind, payload in allp:
        if s < pos:
            raise UnitSyntaxError(f"overlapping edits at {sf.path}:{sf.line_of(s)}")
        if s > pos:
            out.append(Seg(sf.text[pos:s], ("src", sf.path, sf.line_of(pos))))
        if kind == "e":
            if payload.text:
                org = payload.origin if payload.origin else ("src", sf.path, sf.line_of(s), "rewritten")
                out.append(Seg(payload.text, org))
        else:
            out += payload
        pos = max(pos, e)
    if pos < hi:
        out.append(Seg(sf.text[pos:hi], ("src", sf.path, sf.line_of(pos))))
    return out


def site_rewrite(ctx, sf, it, rule, anchor, nth, ropts, what):
    """Normalisations that fire only at sites enumerated in the unit file."""
    toks, pair = sf.toks, sf.pair
    lo = toks[it.body_open].end if it.body_open is not None else it.start
    hi = toks[it.body_close].start if it.body_close is not None else it.end
    lo = getattr(it, "slice_lo", lo)
    hi = getattr(it, "slice_hi", hi)
    try:
        m_ = re.match(r"@loop (\d+)$", anchor.strip())
        if m_:
            # ordinal anchor: the N-th loop of the function (or slice) - survives edits of the loop header
            lps_ = [l_ for l_ in find_loops(sf, it.body_open, it.body_close) if lo <= toks[l_[0]].start < hi]
            if int(m_.group(1)) > len(lps_):
                raise LostAnchor(f"{what}: loop #{m_.group(1)} not found (function has {len(lps_)} loops)")
            kw_ = lps_[int(m_.group(1)) - 1][0]
            s, e = toks[kw_].start, toks[kw_].end
        else:
            s, e = find_anchor(sf, lo, hi, anchor, nth, what)
    except LostAnchor:
        if ropts.get("optional"):
            # a rewrite that only exists to get an unsupported *expression form* past Verus (e.g. `(a..=b).contains(&x)`):
            # if the code no longer uses that form there is nothing to rewrite and Verus sees the new expression itself
            ctx.fire("O1-skipped", sf, lo, f"optional rewrite, anchor {anchor!r} absent")
            return []
        raise
    a, b = tok_range(sf, s, e)
    edits = []
    if rule == "N5" and not re.match(r"@loop (\d+)$", anchor.strip()):
        # (maintenance aid) report the ordinal of a text-anchored loop, so that the unit can name it by ordinal
        lps_ = [l_ for l_ in find_loops(sf, it.body_open, it.body_close) if lo <= toks[l_[0]].start < hi]
        for n_, l_ in enumerate(lps_):
            if toks[l_[0]].start == s:
                ctx.fire("N5-ordinal", sf, s, f"{what} :: {anchor!r} nth={nth} is loop {n_ + 1}")
    if rule == "N8":
        # RECV.extend(ARG)  ->  RECV.extend_from_slice(&ARG) / (ARG) if ARG already starts with &
        k = a
        while k < b and not (toks[k].text == "extend" and toks[k - 1].text == "." and toks[k + 1].text == "("):
            k += 1
        if k >= b:
            raise LostAnchor(f"{what}: N8 site without .extend( in anchor {anchor!r}")
        op = k + 1
        arg_first = toks[op + 1]
        edits.append(Edit(toks[k].start, toks[k].end, "extend_from_slice"))
        if arg_first.text != "&":
            edits.append(Edit(arg_first.start, arg_first.start, "&"))
        ctx.fire("N8", sf, toks[k].start)
    elif rule == "N6":
        # MACRO!(fmt, args..) at the anchor -> opaque_string((args,)) / opaque_error((args,))
        k = a
        while k < b and not (toks[k].text == "!" and toks[k + 1].text in ("(", "[", "{")):
            k += 1
        if k >= b:
            raise LostAnchor(f"{what}: N6 site without macro call in anchor {anchor!r}")
        # macro path start
        m0 = k - 1
        while toks[m0 - 1].text == "::":
            m0 -= 2
        close = pair[k + 1]
        args = macro_positional_args(sf, k + 1)
        fn = ropts.get("to", "opaque_string")
        first_is_fmt = toks[k + 2].kind == "str"
        if not first_is_fmt:
            # all arguments are positional expressions
            args = [sf.text[toks[k + 2].start:toks[close - 1].end]] if close > k + 2 else []
        repl = f"{fn}(({' '.join(x + ',' for x in args)}))"
        edits.append(Edit(toks[m0].start, toks[close].end, repl))
        ctx.fire("N6", sf, toks[m0].start, sf.text[toks[m0].start:toks[k].end])
    elif rule == "N5":
        edits += rewrite_for_to_while(ctx, sf, a, b, ropts, what)
    elif rule == "N16":
        # `for V in VEC { body }` (VEC a local Vec of Copy elements, consumed by the loop) ->
        # `{ let V__v = VEC; let mut V__c: usize = 0; while V__c < V__v.len() { let V = V__v[V__c]; V__c += 1; body } }`
        k = a
        if toks[k].text != "for" or toks[k + 2].text != "in":
            raise LostAnchor(f"{what}: N16 anchor must be `for V in VEC {{`")
        j = k + 3
        while toks[j].text != "{":
            j = pair[j] + 1 if toks[j].text in ("(", "[") else j + 1
        var = toks[k + 1].text
        vec = sf.text[toks[k + 3].start:toks[j - 1].end]
        if ropts.get("src"):
            # the iterated expression is an opaque call (O1): `src=` names the stub call that yields the Vec
            vec = ropts["src"].replace("~", " ")
        body_open, body_close = j, pair[j]
        head = f"{{ let {var}__v = {vec}; let mut {var}__c: usize = 0; while {var}__c < {var}__v.len() "
        # elem_ref=1: the element type is not Copy and the body only reads the element -> bind a reference to it
        first = f" let {var} = {'&' if ropts.get('elem_ref') else ''}{var}__v[{var}__c]; {var}__c += 1;"
        edits += [Edit(toks[k].start, toks[body_open].start, head),
                  Edit(toks[body_open].end, toks[body_open].end, first, prio=-1),
                  Edit(toks[body_close].end, toks[body_close].end, " }")]
        ctx.fire("N16", sf, toks[k].start, f"for {var} in {vec} (by value)")
    elif rule == "N15":
        # `for V in E.chars() { body }` -> `{ let V__v = vx_chars(E); let mut V__c: usize = 0; while V__c < V__v.len() { let V = V__v[V__c]; V__c += 1; body } }`
        # (vx_chars: ASSUMED total stub String -> Vec<char>, the characters in order; break/continue keep their meaning
        # only when the body has no `continue` -- checked)
        k = a
        if toks[k].text != "for" or toks[k + 2].text != "in":
            raise LostAnchor(f"{what}: N15 anchor must start at `for V in`")
        var = toks[k + 1].text
        j = k + 3
        while toks[j].text != "{":
            j = pair[j] + 1 if toks[j].text in ("(", "[") else j + 1
        body_open, body_close = j, pair[j]
        if not (toks[body_open - 1].text == ")" and toks[body_open - 2].text == "(" and toks[body_open - 3].text == "chars" and toks[body_open - 4].text == "."):
            raise LostAnchor(f"{what}: N15 needs `for V in E.chars()`")
        if any(toks[m].text == "continue" for m in range(body_open, body_close)):
            raise UnitSyntaxError("N15: body with `continue` not supported")
        E = sf.text[toks[k + 3].start:toks[body_open - 5].end]
        callee = "vx_chars_ref(&" + E + ")" if ropts.get("by_ref") else "vx_chars(" + E + ")"
        head = f"{{ let {var}__v = {callee}; let mut {var}__c: usize = 0; while {var}__c < {var}__v.len() "
        first = f" let {var} = {var}__v[{var}__c]; {var}__c += 1;"
        edits += [Edit(toks[k].start, toks[body_open].start, head),
                  Edit(toks[body_open].end, toks[body_open].end, first, prio=-1),
                  Edit(toks[body_close].end, toks[body_close].end, " }")]
        ctx.fire("N15", sf, toks[k].start, f"for {var} in ({E}).chars()")
    elif rule == "ARMBODY":
        # the body of the match arm whose pattern is the anchor (`PAT =>`) is replaced by a stub expression (O1 for a whole arm):
        # a block `{ .. }` or an expression up to the `,` that ends the arm
        k = b - 1
        if toks[k].text != "=>":
            raise LostAnchor(f"{what}: ARMBODY anchor must end with `=>`")
        j = k + 1
        if toks[j].text == "{":
            lo_b, hi_b = toks[j].start, toks[pair[j]].end
        else:
            q_ = j
            while toks[q_].text != ",":
                q_ = pair[q_] + 1 if toks[q_].text in ("(", "[", "{") else q_ + 1
            lo_b, hi_b = toks[j].start, toks[q_ - 1].end
        edits.append(Edit(lo_b, hi_b, ropts["call"].replace("~", " ")))
        ctx.fire("O1", sf, lo_b, f"opaque match arm {anchor!r} -> {ropts['call']}")
    elif rule == "O1":
        # opaque statement: replace anchor..(through `;`) by a call to an external_body stub
        k = b
        end = e
        if ropts.get("to_body_end"):
            # TAIL (head half): everything from the anchor to the end of the function body is replaced by the call (to the
            # tail function that slice_tail= extracts from exactly this text, verified in the same unit)
            end = hi
        elif toks[b - 1].text == ";":
            end = e
            call_semi = True
        elif ropts.get("to_call_end"):
            # the anchor ends with the `(` of a call: the replaced region runs to the matching `)`, whatever the arguments are now
            # (with $n capture the stub receives them, so an edit of an argument is seen by the verifier instead of losing the anchor)
            if toks[b - 1].text != "(":
                raise LostAnchor(f"{what}: O1 to_call_end: anchor {anchor!r} must end with `(`")
            end = toks[pair[b - 1]].end
        elif ropts.get("to_semicolon", True) not in ("", "0", False):
            depth_k = b
            while toks[depth_k].text != ";":
                depth_k = pair[depth_k] + 1 if toks[depth_k].text in ("(", "[", "{") else depth_k + 1
            end = toks[depth_k].end
        call = ropts["call"].replace("~", " ")
        if "$" in call:
            # argument capture: $1..$9 stand for the source text of the arguments of a call inside the replaced region, so that
            # the stub sees the expressions the code really passes (and a change to them is visible to the verifier).
            # capture=NAME picks the call `NAME(..)`; by default the first `(` at or after the last token of the anchor.
            hi_tok = b
            while hi_tok < len(toks) and toks[hi_tok].start < end:
                hi_tok += 1
            g = None
            cap = ropts.get("capture")
            if cap:
                for q_ in range(a, hi_tok):
                    if toks[q_].text == cap and toks[q_ + 1].text == "(":
                        g = q_ + 1
                        break
            else:
                for q_ in range(max(a, b - 1), hi_tok):
                    if toks[q_].text == "(":
                        g = q_
                        break
            if g is None:
                raise LostAnchor(f"{what}: O1 argument capture: no call found in {anchor!r}")
            gc = pair[g]
            args_, cur_, q_ = [], g + 1, g + 1
            while q_ < gc:
                if toks[q_].text in ("(", "[", "{"):
                    q_ = pair[q_] + 1
                    continue
                if toks[q_].text == ",":
                    args_.append(sf.text[toks[cur_].start:toks[q_ - 1].end])
                    cur_ = q_ + 1
                q_ += 1
            if cur_ < gc:
                args_.append(sf.text[toks[cur_].start:toks[gc - 1].end])
            for n_ in range(len(args_), 0, -1):
                call = call.replace(f"${n_}", " ".join(args_[n_ - 1].split()))
            if re.search(r"\$\d", call):
                raise LostAnchor(f"{what}: O1 argument capture: the call in {anchor!r} has {len(args_)} arguments")
        edits.append(Edit(s, end, call + ("\n" if ropts.get("to_body_end") else "" if ropts.get("to_call_end") else ";" if (end != e or toks[b - 1].text == ";") else "")))
        ctx.fire("O1", sf, s, f"opaque statement -> {call}")
    elif rule == "N12L":
        # alpha-renaming of a local that shadows a parameter (`let pos = pos.into();`): the binding in the anchor and every
        # later use in the function body are renamed, so that contracts can still name the parameter
        frm, to = ropts["from"], ropts["to"]
        k = a
        while k < b and toks[k].text != frm:
            k += 1
        if k >= b or toks[k - 1].text not in ("let", "mut"):
            raise LostAnchor(f"{what}: N12L anchor must contain `let {frm}`")
        edits.append(Edit(toks[k].start, toks[k].end, to))
        body_hi_tok = it.body_close
        for j in range(b, body_hi_tok):
            if toks[j].kind == "id" and toks[j].text == frm and toks[j - 1].text not in (".", "::"):
                # field init shorthand / struct field names are not renamed: `frm:` preceded by `{` or `,`
                if toks[j + 1].text == ":" and toks[j - 1].text in ("{", ","):
                    continue
                edits.append(Edit(toks[j].start, toks[j].end, to))
        ctx.fire("N12L", sf, toks[k].start, f"local {frm} -> {to}")
    elif rule == "N12":
        frm, to = ropts["from"], ropts["to"]
        k = a
        while k < b and toks[k].text != frm:
            k += 1
        if k >= b:
            raise LostAnchor(f"{what}: N12 name {frm} not in anchor {anchor!r}")
        edits.append(Edit(toks[k].start, toks[k].end, to))
        ctx.fire("N12", sf, toks[k].start, f"{frm} -> {to}")
    else:
        raise UnitSyntaxError(f"unknown site rewrite {rule}")
    return edits


def rewrite_for_to_while(ctx, sf, a, b, ropts, what):
    """N5: `for i in A..B { body }` -> `{ let mut i__c = A; while i__c < B { let i = i__c; i__c += 1; body } }`
    and `for i in (A..B).rev()` counting down.  `..=` supported."""
    toks, pair = sf.toks, sf.pair
    k = a
    if toks[k].text != "for":
        raise LostAnchor(f"{what}: N5 anchor must start at `for`")
    var = toks[k + 1].text
    if toks[k + 2].text != "in":
        raise LostAnchor(f"{what}: N5 needs simple loop variable")
    j = k + 3
    while toks[j].text != "{":
        j = pair[j] + 1 if toks[j].text in ("(", "[") else j + 1
    body_open = j
    body_close = pair[j]
    rev = False
    lo_tok, hi_tok = k + 3, body_open
    if toks[k + 3].text == "(" and toks[pair[k + 3] + 1].text == "." and toks[pair[k + 3] + 2].text == "rev":
        rev = True
        lo_tok, hi_tok = k + 4, pair[k + 3]
    # find `..` / `..=` at depth 0
    d = lo_tok
    while d < hi_tok and toks[d].text not in ("..", "..="):
        d = pair[d] + 1 if toks[d].text in ("(", "[") else d + 1
    if d >= hi_tok:
        raise LostAnchor(f"{what}: N5 range not found")
    A = sf.text[toks[lo_tok].start:toks[d - 1].end]
    B = sf.text[toks[d + 1].start:toks[hi_tok - 1].end]
    incl = toks[d].text == "..="
    c = f"{var}__c" if var != "_" else "rep__c"
    ty = ropts.get("ty")
    tyann = f": {ty}" if ty else ""
    if not rev:
        cmp = "<=" if incl else "<"
        if incl:
            raise UnitSyntaxError("N5 inclusive forward ranges are not supported (overflow semantics differ)")
        head = f"{{ let mut {c}{tyann} = {A}; let {c}_end{tyann} = {B}; while {c} {cmp} {c}_end"
        first = f" let {var} = {c}; {c} += 1;"
    else:
        # (A..B).rev(): i = B-1 down to A
        if incl:
            raise UnitSyntaxError("N5 inclusive reverse ranges are not supported")
        head = f"{{ let {c}_lo{tyann} = {A}; let mut {c}{tyann} = {B}; while {c} > {c}_lo"
        first = f" {c} -= 1; let {var} = {c};"
    edits = [Edit(toks[k].start, toks[body_open].start, head + " "),
             Edit(toks[body_open].end, toks[body_open].end, first, prio=-1),
             Edit(toks[body_close].end, toks[body_close].end, " }")]
    ctx.fire("N5", sf, toks[k].start, "rev" if rev else "fwd")
    return edits


# --------------------------------------------------------------------------------------------
# items (struct / enum / const / trait / impl-as-a-whole)
# --------------------------------------------------------------------------------------------

def build_item(ctx, unit, spec):
    file_rel, _, rest = spec.path.partition("::")
    file_rel = file_rel.strip()
    elems = [e.strip() for e in rest.split("::")]
    sf = ctx.sf(file_rel)
    it = sf.find(elems)
    if it is None:
        if spec.opts.get("optional"):
            # a constant that only (newer) code refers to: if the tree does not have it, the code that would use it is not there either
            ctx.fire("ITEM-skipped", sf, 0, f"optional item {spec.path} absent")
            return None
        raise LostAnchor(f"item {spec.path} not found")
    toks = sf.toks
    edits = common_rewrites(ctx, sf, it.tok_lo, it.tok_hi, it.kind, spec.opts)
    edits += ensure_pub(sf, it)
    if it.kind == "impl" and " for " not in re.sub(r"\s+", " ", sf.text[it.start:sf.toks[it.body_open].start]):
        for ch in it.children:
            edits += ensure_pub(sf, ch)
    multi = []
    start_off = toks[it.tok_lo].start
    label = f"{it.kind} {it.name or it.header}"
    pre = ""
    if spec.opts.get("external_body"):
        pre += "#[verifier::external_body]\n"
    if spec.opts.get("attr"):
        pre += spec.opts["attr"].replace("~", " ") + "\n"
    if spec.opts.get("opaque_fields") and it.kind == "struct":
        # replace the types of listed fields by an opaque local type (documented: drops nothing a contract reads)
        for fld_spec in spec.opts["opaque_fields"].split(","):
            fname, oty = fld_spec.split(":")
            k = it.body_open + 1
            done = False
            while k < it.body_close:
                if toks[k].text == fname and toks[k + 1].text == ":" and toks[k - 1].text in ("{", ",", "pub", ")"):
                    j = k + 2
                    depth = 0
                    while j < it.body_close:
                        if toks[j].text in ("(", "["):
                            j = sf.pair[j] + 1
                            continue
                        if toks[j].text == "<":
                            depth += 1
                        elif toks[j].text == ">":
                            depth -= 1
                        elif toks[j].text == ">>":
                            depth -= 2
                        elif toks[j].text == "," and depth == 0:
                            break
                        j += 1
                    edits.append(Edit(toks[k + 2].start, toks[j - 1].end, oty))
                    ctx.fire("T1", sf, toks[k].start, f"field {fname}: type made opaque ({oty})")
                    done = True
                    break
                k += 1
            if not done:
                raise LostAnchor(f"{spec.path}: field {fname} not found")
    if spec.opts.get("drop_fields") and it.kind == "struct":
        for fname in spec.opts["drop_fields"].split(","):
            k = it.body_open + 1
            done = False
            while k < it.body_close:
                if toks[k].text == fname and toks[k + 1].text == ":" and toks[k - 1].text in ("{", ",", "pub", ")", "]"):
                    j = k + 2
                    depth = 0
                    while j < it.body_close:
                        if toks[j].text in ("(", "["):
                            j = sf.pair[j] + 1
                            continue
                        if toks[j].text == "<":
                            depth += 1
                        elif toks[j].text == ">":
                            depth -= 1
                        elif toks[j].text == ">>":
                            depth -= 2
                        elif toks[j].text == "," and depth == 0:
                            break
                        j += 1
                    # start: include preceding `pub` and attributes? attributes were dropped by N7 edits; pub by N1
                    s0 = toks[k].start
                    e0 = toks[j].end if toks[j].text == "," else toks[j - 1].end
                    edits.append(Edit(s0, e0, ""))
                    ctx.fire("T2", sf, s0, f"field {fname} dropped (not read by any function in the unit)")
                    done = True
                    break
                k += 1
            if not done:
                raise LostAnchor(f"{spec.path}: field {fname} not found")
    if it.kind in ("const", "static"):
        # N13: the elided lifetime of a reference type in a const/static item is 'static by definition
        k = it.tok_lo
        while k < it.tok_hi and toks[k].text != "=":
            if toks[k].text == "&" and toks[k + 1].kind != "life":
                edits.append(Edit(toks[k].end, toks[k].end, "'static "))
                ctx.fire("N13", sf, toks[k].start, "&T -> &'static T in const item")
            k += 1
    if spec.opts.get("elide_init") and it.kind in ("const", "static"):
        # T4: the initializer of an external_body table is not read by Verus at all; eliding it only saves
        # translation time. Entry facts about the table are assumed in the unit and discharged by Kani on the
        # real table.
        k = it.tok_lo
        while toks[k].text != "=":
            k = sf.pair[k] + 1 if toks[k].text in ("(", "[") else k + 1
        edits = [e for e in edits if e.end <= toks[k].start]
        c = it.tok_lo
        while toks[c].text != ":":
            c += 1
        ty = sf.text[toks[c + 1].start:toks[k - 1].end]
        zero = re.sub(r"\b[ui](?:8|16|32|64|128|size)\b", "0", ty)
        zero = re.sub(r"\bchar\b", "' '", zero)
        zero = re.sub(r"\bf(?:32|64)\b", "0.0", zero)
        edits.append(Edit(toks[k + 1].start, toks[it.tok_hi - 1].start, zero))
        ctx.fire("T4", sf, toks[k].start, f"initializer of opaque table {it.name} elided")
    if spec.opts.get("derive_only"):
        # restrict #[derive(..)] to the listed traits
        keep = spec.opts["derive_only"].split(",")
        k = it.tok_lo
        while k < it.tok_hi and toks[k].text == "#":
            close = sf.pair[k + 1]
            if toks[k + 2].text == "derive":
                edits = [e for e in edits if not (e.start >= toks[k].start and e.end <= toks[close].end)]
                edits.append(Edit(toks[k].start, toks[close].end,
                                  f"#[derive({', '.join(keep)})]" if keep != ["-"] else ""))
                ctx.fire("T3", sf, toks[k].start, f"derive restricted to {keep}")
            k = close + 1
    for rule, anchor, nth, ropts in spec.rewrites:
        edits += site_rewrite(ctx, sf, it, rule, anchor, nth, ropts, spec.path)
    segs = apply_edits_multi(sf, start_off, it.end, edits, multi)
    if pre:
        segs.insert(0, Seg(pre, ("ins", label, "attr", None)))
    info = dict(label=label, file=file_rel, line=sf.line_of(start_off), end_line=sf.line_of(it.end),
                hash=hashlib.sha256(sf.text[it.start:it.end].encode()).hexdigest()[:12], kind=it.kind,
                path=spec.path)
    return segs, info


# --------------------------------------------------------------------------------------------
# assembly
# --------------------------------------------------------------------------------------------

def strip_vis(text):
    """raw spec text may be written with `pub open spec fn`; the generated file is one private module"""
    return re.sub(r"\bpub\s+(?:(?:open|closed)\s+)?", "", text)


HEADER = """// GENERATED by /verif/vx/extract.py from /repo's working tree -- do not edit.
#![allow(unused_imports, unused_variables, unused_mut, dead_code, unused_assignments, unused_parens, non_snake_case, non_upper_case_globals, unreachable_code, unused_braces)]
use vstd::prelude::*;
use std::collections::HashMap;
use std::ops::{Add, AddAssign, Sub, SubAssign};
use std::collections::VecDeque;
verus! {
"""
FOOTER = """
} // verus!
fn main() {}
"""


class Generated:
    def __init__(self):
        self.text = ""
        self.linemap = []    # index = generated line-1 -> origin tuple
        self.functions = []  # info dicts with gen_lo/gen_hi
        self.items = []
        self.fired = []


def assemble(repo, unit_path, extra_header="", extra_items=None):
    unit = parse_unit(unit_path)
    # AUTO-CONST: constants of the source files that changed code refers to but the unit did not list (see run.py)
    for path_ in (extra_items or []):
        unit.entries.append(("item", ItemSpec(path_, {}, 0)))
    # WEAK entries (`@fn ... | weak=1`, used by the accessor library _accessors.vc): a contract offered in case changed code starts to call
    # the function; dropped when the unit itself puts the same function under contract
    strong = {e[1].path for e in unit.entries if e[0] == "fn" and not e[1].opts.get("weak") and not e[1].opts.get("as")}
    unit.entries = [e for e in unit.entries if not (e[0] == "fn" and e[1].opts.get("weak") and e[1].path in strong)]
    ctx = Ctx(repo)
    ctx.pathmap = [([t.text for t in lex(l)], r) for l, r in unit.pathmap]
    # N18: std integer conversions whose signature assume_specification cannot name are written as calls of the wrappers in
    # prelude/std_shims.rs (units that use that prelude)
    if any(e[0] == "raw" and len(e) > 2 and e[2] == "prelude:prelude/std_shims.rs" for e in unit.entries):
        for ty in ("u16", "i16", "u32", "i32"):
            ctx.pathmap.append(([ty, "::", "from_le_bytes"], f"vx_{ty}_from_le_bytes"))
    gen = Generated()
    segs = [Seg(HEADER, ("raw", "header"))]
    if "allocator_api" in " ".join(unit.verus_args):
        pass
    # group consecutive fns of the same impl into one impl block
    open_impl = None

    def close_impl():
        nonlocal open_impl
        if open_impl is not None:
            segs.append(Seg("}\n", ("raw", f"impl-close {open_impl}")))
            open_impl = None

    fn_ranges = []
    for ent in unit.entries:
        if ent[0] == "raw":
            close_impl()
            segs.append(Seg(ent[1] + "\n", ("raw", ent[2])))
        elif ent[0] == "rawin":
            wrap = ent[2]
            if open_impl is None or rustlex.norm_ws(wrap) != rustlex.norm_ws(open_impl):
                close_impl()
                wtxt = ("pub " + wrap) if wrap.startswith("trait") else wrap
                segs.append(Seg(f"\n{wtxt} {{\n", ("raw", f"impl-open {wrap}")))
                open_impl = wrap
            segs.append(Seg(ent[1] + "\n", ("raw", ent[3])))
        elif ent[0] == "item" and ent[1].opts.get("in"):
            wrap = ent[1].opts["in"].replace("~", " ")
            if open_impl is None or rustlex.norm_ws(wrap) != rustlex.norm_ws(open_impl):
                close_impl()
                segs.append(Seg(f"\n{wrap} {{\n", ("raw", f"impl-open {wrap}")))
                open_impl = wrap
            s, info = build_item(ctx, unit, ent[1])
            gen.items.append(info)
            segs += s
            segs.append(Seg("\n", ("raw", "sep")))
        elif ent[0] == "item":
            close_impl()
            bi_ = build_item(ctx, unit, ent[1])
            if bi_ is None:
                continue
            s, info = bi_
            gen.items.append(info)
            segs.append(Seg("\n", ("raw", "sep")))
            segs += s
            segs.append(Seg("\n", ("raw", "sep")))
        elif ent[0] == "fn":
            s, info, parent, sf = build_fn(ctx, unit, ent[1])
            wrap = (ent[1].opts.get("impl_as") or "").replace("~", " ") or parent
            if wrap and not (wrap.startswith("impl") or wrap.startswith("trait ")):
                wrap = None
            if wrap is None or open_impl is None or rustlex.norm_ws(wrap) != rustlex.norm_ws(open_impl):
                close_impl()
                if wrap:
                    hdr = wrap if ent[1].opts.get("impl_as") else impl_header_text(sf, ent[1])
                    segs.append(Seg(f"\n{hdr} {{\n", ("raw", f"impl-open {wrap}")))
                    open_impl = wrap
            segs.append(Seg("\n", ("raw", "sep")))
            mark_lo = len(segs)
            segs += s
            fn_ranges.append((info, mark_lo, len(segs)))
            segs.append(Seg("\n", ("raw", "sep")))
    close_impl()
    segs.append(Seg(FOOTER, ("raw", "footer")))
    # build text + line map
    line = 1
    linemap = {}
    blank = {}
    seg_first_line = []
    for sg in segs:
        seg_first_line.append(line)
        lines = sg.text.split("\n")
        for n, piece in enumerate(lines):
            gl = line + n
            org = sg.origin
            if org[0] == "src":
                val = ("src", org[1], org[2] + (n if len(org) == 3 else 0))
            else:
                val = org
            prev = linemap.get(gl)
            rank = {"raw": 0, "src": 1, "ins": 2}
            if prev is None:
                linemap[gl] = val
                blank[gl] = not piece.strip()
            elif piece.strip() and (blank.get(gl) or rank[val[0]] > rank[prev[0]]):
                linemap[gl] = val
                blank[gl] = False
        line += len(lines) - 1
    gen.text = "".join(sg.text for sg in segs)
    gen.linemap = linemap
    for info, lo, hi in fn_ranges:
        info = dict(info)
        info["gen_lo"] = seg_first_line[lo]
        info["gen_hi"] = seg_first_line[hi] if hi < len(seg_first_line) else line
        gen.functions.append(info)
    gen.fired = ctx.fired
    gen.dropped_hints = ctx.dropped_hints
    gen.unit = unit
    return gen


def impl_header_text(sf, fs):
    """source text of the enclosing impl/trait header of a function spec (visibility stripped)."""
    file_rel, _, rest = fs.path.partition("::")
    elems = [e.strip() for e in rest.split("::")]
    # find() on a non-leaf returns the unique block only when there is one; otherwise use the
    # block that contains the function
    fn_item = sf.find(elems)
    for it in sf.items:
        if it.kind in ("impl", "trait") and it.start <= fn_item.start and fn_item.end <= it.end:
            k = it.tok_lo
            while sf.toks[k].text not in ("impl", "trait"):
                k += 1
            hdr = sf.text[sf.toks[k].start:sf.toks[it.body_open].start].strip()
            return ("pub " + hdr) if it.kind == "trait" else hdr
    raise LostAnchor(f"enclosing impl of {fs.path} not found")


if __name__ == "__main__":
    import argparse
    ap = argparse.ArgumentParser()
    ap.add_argument("unit")
    ap.add_argument("--repo", default="/repo")
    ap.add_argument("-o", default="-")
    a = ap.parse_args()
    g = assemble(a.repo, a.unit)
    if a.o == "-":
        sys.stdout.write(g.text)
    else:
        open(a.o, "w").write(g.text)
    for f in g.fired:
        print("//fired", f, file=sys.stderr)
