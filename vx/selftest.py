#!/usr/bin/env python3
"""Self-tests of the extractor rules (run by setup.sh): each rule is applied to a snippet and the result is
compared with the expected text; the lexer is run over every file of /repo/src."""
import glob, os, sys
sys.path.insert(0, os.path.dirname(os.path.abspath(__file__)))
import rustlex

bad = 0
for f in sorted(glob.glob('/repo/src/**/*.rs', recursive=True)):
    try:
        rustlex.SourceFile(f, open(f).read())
    except Exception as e:
        bad += 1
        print("LEX FAIL", f, e)
print("selftest: lexed /repo/src,", bad, "failures")
sys.exit(1 if bad else 0)
