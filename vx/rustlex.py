"""Minimal Rust lexer and item locator used by the extractor.

It understands exactly what is needed to find item spans and balanced groups:
comments (line, nested block), string / raw string / byte string literals, char literals
vs. lifetimes, identifiers, numbers and punctuation.  It never evaluates anything.
"""
import re

IDENT_START = set("abcdefghijklmnopqrstuvwxyzABCDEFGHIJKLMNOPQRSTUVWXYZ_")
IDENT_CONT = IDENT_START | set("0123456789")
PUNCT3 = {"<<=", ">>=", "...", "..="}
PUNCT2 = {"::", "->", "=>", "==", "!=", "<=", ">=", "&&", "||", "+=", "-=", "*=", "/=", "%=",
          "^=", "&=", "|=", "<<", ">>", ".."}


class Tok:
    __slots__ = ("kind", "text", "start", "end")

    def __init__(self, kind, text, start, end):
        self.kind, self.text, self.start, self.end = kind, text, start, end

    def __repr__(self):
        return f"Tok({self.kind},{self.text!r},{self.start})"


class LexError(Exception):
    pass


def lex(src, keep_comments=False):
    """Return list of Tok. kinds: id, num, str, char, life, punct, comment, doc"""
    toks = []
    i, n = 0, len(src)
    while i < n:
        c = src[i]
        if c in " \t\r\n":
            i += 1
            continue
        if src.startswith("//", i):
            j = src.find("\n", i)
            if j < 0:
                j = n
            if keep_comments:
                toks.append(Tok("comment", src[i:j], i, j))
            i = j
            continue
        if src.startswith("/*", i):
            depth, j = 1, i + 2
            while j < n and depth:
                if src.startswith("/*", j):
                    depth += 1
                    j += 2
                elif src.startswith("*/", j):
                    depth -= 1
                    j += 2
                else:
                    j += 1
            if depth:
                raise LexError("unterminated block comment")
            if keep_comments:
                toks.append(Tok("comment", src[i:j], i, j))
            i = j
            continue
        # raw strings r"..", r#".."#, br"..", b".."
        m = re.compile(r'(?:b|c)?r(#*)"').match(src, i)
        if m:
            hashes = m.group(1)
            close = '"' + hashes
            j = src.find(close, m.end())
            if j < 0:
                raise LexError("unterminated raw string")
            j += len(close)
            toks.append(Tok("str", src[i:j], i, j))
            i = j
            continue
        if c == '"' or (c in "bc" and i + 1 < n and src[i + 1] == '"'):
            j = i + (2 if c != '"' else 1)
            while j < n and src[j] != '"':
                j += 2 if src[j] == "\\" else 1
            if j >= n:
                raise LexError("unterminated string")
            j += 1
            toks.append(Tok("str", src[i:j], i, j))
            i = j
            continue
        if c == "'" or (c == "b" and i + 1 < n and src[i + 1] == "'"):
            s = i + (1 if c == "b" else 0)
            # char literal or lifetime
            if s + 1 < n and src[s + 1] == "\\":
                j = s + 2
                # escape: \n, \', \x41, \u{..}
                if src[j] == "u":
                    j = src.find("}", j) + 1
                elif src[j] == "x":
                    j += 3
                else:
                    j += 1
                if src[j] != "'":
                    raise LexError(f"bad char literal at {i}")
                j += 1
                toks.append(Tok("char", src[i:j], i, j))
                i = j
                continue
            if s + 2 < n and src[s + 2] == "'" and src[s + 1] != "'":
                j = s + 3
                toks.append(Tok("char", src[i:j], i, j))
                i = j
                continue
            # multi-byte char literal e.g. '░'
            if s + 1 < n and ord(src[s + 1]) > 127 and s + 2 < n and src[s + 2] == "'":
                j = s + 3
                toks.append(Tok("char", src[i:j], i, j))
                i = j
                continue
            if c == "'" and s + 1 < n and src[s + 1] in IDENT_START:
                j = s + 1
                while j < n and src[j] in IDENT_CONT:
                    j += 1
                toks.append(Tok("life", src[i:j], i, j))
                i = j
                continue
            raise LexError(f"cannot lex quote at {i}: {src[i:i+20]!r}")
        if c in IDENT_START:
            j = i + 1
            while j < n and src[j] in IDENT_CONT:
                j += 1
            # raw identifiers r#x are not used in the crate
            toks.append(Tok("id", src[i:j], i, j))
            i = j
            continue
        if c.isdigit():
            j = i + 1
            while j < n and (src[j] in IDENT_CONT or
                             (src[j] == "." and j + 1 < n and src[j + 1].isdigit()
                              and not src.startswith("..", j))):
                j += 1
            toks.append(Tok("num", src[i:j], i, j))
            i = j
            continue
        if src[i:i + 3] in PUNCT3:
            toks.append(Tok("punct", src[i:i + 3], i, i + 3))
            i += 3
            continue
        if src[i:i + 2] in PUNCT2:
            toks.append(Tok("punct", src[i:i + 2], i, i + 2))
            i += 2
            continue
        toks.append(Tok("punct", c, i, i + 1))
        i += 1
    return toks


OPEN = {"(": ")", "[": "]", "{": "}"}
CLOSE = {")", "]", "}"}


def match_groups(toks):
    """Return dict open_index -> close_index (and reverse) for () [] {}."""
    stack, pair = [], {}
    for k, t in enumerate(toks):
        if t.kind != "punct":
            continue
        if t.text in OPEN:
            stack.append(k)
        elif t.text in CLOSE:
            if not stack:
                raise LexError(f"unbalanced close at {t.start}")
            o = stack.pop()
            if OPEN[toks[o].text] != t.text:
                raise LexError(f"mismatched {toks[o].text} {t.text} at {t.start}")
            pair[o] = k
            pair[k] = o
    if stack:
        raise LexError("unbalanced open")
    return pair


ITEM_KW = {"fn", "const", "static", "struct", "enum", "impl", "trait", "mod", "use", "type",
           "macro_rules", "extern", "union"}
QUALS = {"pub", "unsafe", "async", "default"}


class Item:
    """One syntactic item. span = [start,end) byte offsets incl. attributes; kind; name/header."""

    def __init__(self, kind, name, start, end, attr_end, tok_lo, tok_hi, body_open=None,
                 body_close=None, header=""):
        self.kind, self.name = kind, name
        self.start, self.end = start, end
        self.attr_end = attr_end          # offset where attributes end / the item proper begins
        self.tok_lo, self.tok_hi = tok_lo, tok_hi   # token index range [lo,hi)
        self.body_open, self.body_close = body_open, body_close  # token indices of { }
        self.header = header
        self.children = []

    def __repr__(self):
        return f"Item({self.kind} {self.name or self.header})"


def norm_ws(s):
    return re.sub(r"\s+", "", s)


def parse_items(src, toks, pair, lo, hi):
    """Parse the items in token range [lo,hi) (top level of a file, impl, trait or mod body)."""
    items = []
    k = lo
    while k < hi:
        first = k
        # attributes
        while k < hi and toks[k].text == "#":
            j = k + 1
            if toks[j].text == "!":
                j += 1
            if toks[j].text != "[":
                raise LexError("bad attribute")
            k = pair[j] + 1
        attr_end_tok = k
        if k >= hi:
            break
        # qualifiers
        q = k
        while q < hi:
            t = toks[q]
            if t.text == "pub":
                q += 1
                if q < hi and toks[q].text == "(":
                    q = pair[q] + 1
                continue
            if t.text in ("unsafe", "async", "default") or (t.text == "const" and toks[q + 1].text in ("fn", "unsafe")):
                q += 1
                continue
            if t.text == "extern" and toks[q + 1].kind == "str" and toks[q + 2].text == "fn":
                q += 2
                continue
            break
        t = toks[q]
        kw = t.text
        if kw == ";":   # stray
            k = q + 1
            continue
        is_macro = False
        if t.kind == "id" and kw != "macro_rules":
            mq = q + 1
            while mq + 1 < hi and toks[mq].text == "::" and toks[mq + 1].kind == "id":
                mq += 2
            is_macro = mq < hi and toks[mq].text == "!"
        if kw not in ITEM_KW and not is_macro:
            raise LexError(f"unexpected token {t!r} at top level near {src[t.start:t.start+40]!r}")
        name, header = None, ""
        body_open = body_close = None
        if not is_macro:
            if kw in ("fn", "const", "static", "struct", "enum", "trait", "mod", "type", "union"):
                nq = q + 1
                if kw == "static" and toks[nq].text == "mut":
                    nq += 1
                name = toks[nq].text
            # find end: first `{` or `;` at depth 0 after q
            j = q + 1
            end_tok = None
            while j < hi:
                tj = toks[j]
                if tj.text in ("(", "["):
                    j = pair[j] + 1
                    continue
                if tj.text == "{":
                    if kw in ("const", "static", "type", "use"):
                        j = pair[j] + 1
                        continue
                    body_open, body_close = j, pair[j]
                    end_tok = pair[j]
                    break
                if tj.text == ";":
                    end_tok = j
                    break
                j += 1
            if end_tok is None:
                raise LexError(f"no end for item {kw} {name}")
            if kw == "struct" and body_open is not None:
                pass
            if kw in ("impl", "trait"):
                header = norm_ws(src[toks[q].start:toks[body_open].start])
            if kw == "macro_rules":
                name = toks[q + 2].text
        else:
            # macro invocation item: name ! (..) ;  or name ! { .. }
            j = q
            while toks[j].text != "!":
                j += 1
            g = j + 1
            if toks[g].kind == "id":
                g += 1
            end_tok = pair[g]
            if toks[g].text != "{" and end_tok + 1 < hi and toks[end_tok + 1].text == ";":
                end_tok += 1
            kw = "macro"
            name = toks[q].text
        it = Item(kw, name, toks[first].start, toks[end_tok].end, toks[attr_end_tok].start,
                  first, end_tok + 1, body_open, body_close, header)
        if kw in ("impl", "trait", "mod") and body_open is not None:
            it.children = parse_items(src, toks, pair, body_open + 1, body_close)
        items.append(it)
        k = end_tok + 1
    return items


class SourceFile:
    def __init__(self, path, text):
        self.path, self.text = path, text
        self.toks = lex(text)
        self.pair = match_groups(self.toks)
        self.items = parse_items(text, self.toks, self.pair, 0, len(self.toks))
        # line starts
        self.line_starts = [0]
        for m in re.finditer("\n", text):
            self.line_starts.append(m.end())

    def line_of(self, off):
        import bisect
        return bisect.bisect_right(self.line_starts, off)

    def find(self, path_elems):
        """path_elems: list like ['impl Caret', 'fn lf'] -> Item or None (ambiguous -> error)."""
        items = self.items
        found = None
        for depth, el in enumerate(path_elems):
            el = el.strip()
            kind, _, rest = el.partition(" ")
            if el.startswith("impl<") or el.startswith("impl "):
                kind = "impl"
            cands = []
            for it in items:
                if kind in ("impl", "trait") and it.kind == kind:
                    if it.header == norm_ws(el) or (kind == "trait" and it.name == rest.strip()):
                        cands.append(it)
                elif it.kind == kind and it.name == rest.strip():
                    cands.append(it)
            # impl blocks with the same header may occur several times: merge search
            if not cands:
                return None
            if depth == len(path_elems) - 1:
                if len(cands) > 1:
                    raise LexError(f"ambiguous item {path_elems} in {self.path}")
                return cands[0]
            # descend: union of children of all candidate blocks
            items = [c for cand in cands for c in cand.children]
        return found
