// TheDraw font (TDF) layout, shared by the reader unit tdf_load and the writer unit tdf_save: a font record starts at byte `of`
// (indicator 4, name length 1, name 12, magic 4, type 1, spacing 1, block size 2, 94 offsets, glyph block).
pub open spec fn u16le(b: Seq<u8>, i: int) -> int { b[i] as int + 256 * (b[i + 1] as int) }
// what the header of the font that starts at byte `of` says (TDF layout: indicator 4, name length 1, name 12, magic 4, type 1, spacing 1, block size 2, 94 offsets)
// the first n entries of a glyph table agree with the offset table of the font that starts at `of`
// the data bytes of the glyph that starts at byte o: a zero-terminated string; in colour fonts every character except the
// carriage return (13) is followed by its attribute byte, which may be 0
pub open spec fn tdf_glyph(b: Seq<u8>, o: int, color: bool) -> Seq<u8>
    decreases b.len() - o
{
    if o < 0 || o >= b.len() || b[o] == 0 { Seq::empty() }
    else if color && b[o] != 13 { if o + 1 >= b.len() { seq![b[o]] } else { seq![b[o], b[o + 1]] + tdf_glyph(b, o + 2, color) } }
    else { seq![b[o]] + tdf_glyph(b, o + 1, color) }
}
// shared by the writer (record_closed: what it writes is terminated) and the reader (acceptance: what it may refuse): decoding e from byte i ends at a terminator inside e (never runs past its end, never swallows the last byte as an attribute)
pub open spec fn tdf_in(e: Seq<u8>, i: int, color: bool) -> bool
    decreases e.len() - i
{
    if i < 0 || i >= e.len() { false } else if e[i] == 0 { true }
    else if color && e[i] != 13 { i + 1 < e.len() && tdf_in(e, i + 2, color) } else { tdf_in(e, i + 1, color) }
}
pub open spec fn table_ok(ct: Seq<Option<FontGlyph>>, b: Seq<u8>, of: int, n: int) -> bool {
    &&& forall|k: int| 0 <= k < n ==> ((#[trigger] ct[k]) is None) == (u16le(b, of + 25 + 2 * k) == 0xFFFF)
    &&& forall|k: int| 0 <= k < n && u16le(b, of + 25 + 2 * k) != 0xFFFF ==> {
            let at = of + 213 + u16le(b, of + 25 + 2 * k);
            (#[trigger] ct[k])->Some_0.size == (Size { width: b[at] as i32, height: b[at + 1] as i32 })
            && ct[k]->Some_0.data@ == tdf_glyph(b, at + 2, b[of + 21] == 2)
        }
}
pub open spec fn font_matches(f: TheDrawFont, b: Seq<u8>, of: int) -> bool {
    &&& f.spaces == b[of + 22]
    &&& (f.font_type is Outline) == (b[of + 21] == 0) && (f.font_type is Block) == (b[of + 21] == 1) && (f.font_type is Color) == (b[of + 21] == 2)
    &&& f.char_table@.len() == 94
    &&& table_ok(f.char_table@, b, of, 94)
}
// where font n of a bundle starts: the first font follows the 20-byte file header, each record is 213 bytes plus its glyph block
pub open spec fn tdf_start(b: Seq<u8>, n: nat) -> int
    decreases n
{
    if n == 0 { 20 } else { tdf_start(b, (n - 1) as nat) + 213 + u16le(b, tdf_start(b, (n - 1) as nat) + 23) }
}
pub uninterp spec fn tdf_id_ok(b: Seq<u8>) -> bool;     // bytes 1..19 spell the TheDraw id (slice comparison: uninterpreted)
// u32::from_le_bytes of a 4-byte slice
pub open spec fn tdf_u32(b: Seq<u8>) -> u32 { (b[0] as int + 256 * (b[1] as int) + 65536 * (b[2] as int) + 16777216 * (b[3] as int)) as u32 }
// acceptance: which byte strings the reader may refuse. A file is refused only if its 20-byte header is wrong or some font record
// the reader reaches (record n starts at tdf_start(b, n), inside the file, with a non-zero first byte) is malformed.
pub open spec fn tdf_header_ok(b: Seq<u8>) -> bool { b.len() >= 233 && b[0] == 19 && tdf_id_ok(b) && b[19] == 0x1A }
// entry k of the offset table of the font at `of`: unused (0xFFFF), or inside the glyph block with size bytes and a terminated string in the file
pub open spec fn tdf_slot_ok(b: Seq<u8>, of: int, k: int) -> bool {
    let off = u16le(b, of + 25 + 2 * k);
    off == 0xFFFF || (off < u16le(b, of + 23) && of + 213 + off + 2 <= b.len() && tdf_in(b, of + 213 + off + 2, b[of + 21] == 2))
}
pub open spec fn tdf_font_ok(b: Seq<u8>, of: int) -> bool {
    &&& of + 213 <= b.len()
    &&& tdf_u32(b.subrange(of, of + 4)) == 0xFF00_AA55u32
    &&& b[of + 4] <= 12
    &&& b[of + 21] <= 2
    &&& b[of + 22] <= 40
    &&& forall|k: int| 0 <= k < 94 ==> #[trigger] tdf_slot_ok(b, of, k)
}
pub open spec fn tdf_bad_font(b: Seq<u8>, n: nat) -> bool {
    let of = tdf_start(b, n);
    0 <= of < b.len() && b[of] != 0 && !tdf_font_ok(b, of)
}
