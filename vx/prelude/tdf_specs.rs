// TheDraw font (TDF) layout, shared by the reader unit tdf_load and the writer unit tdf_save: a font record starts at byte `of`
// (indicator 4, name length 1, name 12, magic 4, type 1, spacing 1, block size 2, 94 offsets, glyph block).
pub open spec fn u16le(b: Seq<u8>, i: int) -> int { b[i] as int + 256 * (b[i + 1] as int) }
// what the header of the font that starts at byte `of` says (TDF layout: indicator 4, name length 1, name 12, magic 4, type 1, spacing 1, block size 2, 94 offsets)
// the first n entries of a glyph table agree with the offset table of the font that starts at `of`
// the data bytes of the glyph that starts at byte o: a zero-terminated string; in colour fonts every character except the
// carriage return (13) is followed by its attribute byte, which may be 0
pub open spec fn tdf_glyph(b: Seq<u8>, o: int, color: bool) -> Seq<u8>
    decreases b.len() - o
{
    if o < 0 || o >= b.len() || b[o] == 0 { Seq::empty() }
    else if color && b[o] != 13 { if o + 1 >= b.len() { seq![b[o]] } else { seq![b[o], b[o + 1]] + tdf_glyph(b, o + 2, color) } }
    else { seq![b[o]] + tdf_glyph(b, o + 1, color) }
}
pub open spec fn table_ok(ct: Seq<Option<FontGlyph>>, b: Seq<u8>, of: int, n: int) -> bool {
    &&& forall|k: int| 0 <= k < n ==> ((#[trigger] ct[k]) is None) == (u16le(b, of + 25 + 2 * k) == 0xFFFF)
    &&& forall|k: int| 0 <= k < n && u16le(b, of + 25 + 2 * k) != 0xFFFF ==> {
            let at = of + 213 + u16le(b, of + 25 + 2 * k);
            (#[trigger] ct[k])->Some_0.size == (Size { width: b[at] as i32, height: b[at + 1] as i32 })
            && ct[k]->Some_0.data@ == tdf_glyph(b, at + 2, b[of + 21] == 2)
        }
}
pub open spec fn font_matches(f: TheDrawFont, b: Seq<u8>, of: int) -> bool {
    &&& f.spaces == b[of + 22]
    &&& (f.font_type is Outline) == (b[of + 21] == 0) && (f.font_type is Block) == (b[of + 21] == 1) && (f.font_type is Color) == (b[of + 21] == 2)
    &&& f.char_table@.len() == 94
    &&& table_ok(f.char_table@, b, of, 94)
}
// where font n of a bundle starts: the first font follows the 20-byte file header, each record is 213 bytes plus its glyph block
pub open spec fn tdf_start(b: Seq<u8>, n: nat) -> int
    decreases n
{
    if n == 0 { 20 } else { tdf_start(b, (n - 1) as nat) + 213 + u16le(b, tdf_start(b, (n - 1) as nat) + 23) }
}
