// iCE Draw (IDF) screen block grammar, shared by the reader unit idf_load and the writer unit idf_save.
pub open spec fn le16(d: Seq<u8>, i: int) -> int { d[i] as int + 256 * (d[i + 1] as int) }
// the record grammar of the screen block d[o..end): literal pair, or 01 00 <count16> <char> <attr>
pub open spec fn idf_cells(d: Seq<u8>, o: int, end: int) -> Seq<(u8, u8)>
    decreases end - o
{
    if o + 1 >= end || o < 0 { Seq::empty() } else if d[o] == 1 && d[o + 1] == 0 {
        if o + 5 >= end { Seq::empty() } else { Seq::new(le16(d, o + 2) as nat, |i: int| (d[o + 4], d[o + 5])) + idf_cells(d, o + 6, end) }
    } else {
        seq![(d[o], d[o + 1])] + idf_cells(d, o + 2, end)
    }
}
// where the record loop stops reading (the font block is read from there): at the end of the block for a whole number of records
pub open spec fn idf_stop(d: Seq<u8>, o: int, end: int) -> int
    decreases end - o
{
    if o + 1 >= end || o < 0 { o } else if d[o] == 1 && d[o + 1] == 0 { if o + 5 >= end { o + 2 } else { idf_stop(d, o + 6, end) } } else { idf_stop(d, o + 2, end) }
}
