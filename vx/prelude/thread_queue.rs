// ---- abstract thread queue (DESIGN.md C14): every schedule is covered because is_finished() is unconstrained ------
#[verifier::external_body]
pub struct VxHandle {}
impl VxHandle {
    pub uninterp spec fn done(&self) -> bool;      // the decode thread has terminated
    pub uninterp spec fn outcome(&self) -> Result<EngineResult<Sixel>, OpaqueT1>;   // what join() yields
    // ASSUMED std semantics: is_finished() never blocks and answers true only for a terminated thread. It may answer false
    // for ANY handle at ANY call: the verifier must succeed for every sequence of answers = every completion schedule.
    #[verifier::external_body]
    pub fn is_finished(&self) -> (r: bool)
        ensures r ==> self.done(),
    { unimplemented!() }
    // ASSUMED std semantics: join() on a terminated thread returns at once. Calling it on a running thread would block:
    // the precondition makes "polling never blocks" a proof obligation.
    #[verifier::external_body]
    pub fn join(self) -> (r: Result<EngineResult<Sixel>, OpaqueT1>)
        requires self.done(),
        ensures r == self.outcome(),
    { unimplemented!() }
}
impl VxThreadQueue {
    pub uninterp spec fn view(&self) -> Seq<VxHandle>;
    #[verifier::external_body]
    pub fn front(&self) -> (r: Option<&VxHandle>)
        ensures self@.len() == 0 ==> r.is_none(), self@.len() > 0 ==> r == Some(&self@[0]),
    { unimplemented!() }
    // the other VecDeque accessors a change to the polling code could reasonably use (same abstract view)
    #[verifier::external_body]
    pub fn back(&self) -> (r: Option<&VxHandle>)
        ensures self@.len() == 0 ==> r.is_none(), self@.len() > 0 ==> r == Some(&self@[self@.len() - 1]),
    { unimplemented!() }
    #[verifier::external_body]
    pub fn len(&self) -> (r: usize)
        ensures r == self@.len(),
    { unimplemented!() }
    #[verifier::external_body]
    pub fn is_empty(&self) -> (r: bool)
        ensures r == (self@.len() == 0),
    { unimplemented!() }
    #[verifier::external_body]
    pub fn pop_back(&mut self) -> (r: Option<VxHandle>)
        ensures
            old(self)@.len() == 0 ==> r.is_none() && final(self)@ == old(self)@,
            old(self)@.len() > 0 ==> r == Some(old(self)@[old(self)@.len() - 1]) && final(self)@ == old(self)@.take(old(self)@.len() - 1),
    { unimplemented!() }
    #[verifier::external_body]
    pub fn pop_front(&mut self) -> (r: Option<VxHandle>)
        ensures
            old(self)@.len() == 0 ==> r.is_none() && final(self)@ == old(self)@,
            old(self)@.len() > 0 ==> r == Some(old(self)@[0]) && final(self)@ == old(self)@.skip(1),
    { unimplemented!() }
    // enqueueing at the back (execute_dcs): ASSUMED VecDeque::push_back semantics on the abstract view
    #[verifier::external_body]
    pub fn push_back(&mut self, h: VxHandle)
        ensures final(self)@ == old(self)@.push(h),
    { unimplemented!() }
    #[verifier::external_body]
    pub fn push_front(&mut self, h: VxHandle)
        ensures final(self)@ == seq![h] + old(self)@,
    { unimplemented!() }
}
