// S1: local shims for std free functions Verus cannot take generically. Each is discharged against std by a Kani harness
// (kc/lib_harness.rs: std_spec_*).
// S2: assumed specifications of std integer methods (each discharged by a Kani harness std_spec_*).
pub open spec fn i32_sat_sub(a: i32, b: i32) -> i32 {
    if a - b > i32::MAX { i32::MAX } else if a - b < i32::MIN { i32::MIN } else { (a - b) as i32 }
}
pub open spec fn i32_sat_add(a: i32, b: i32) -> i32 {
    if a + b > i32::MAX { i32::MAX } else if a + b < i32::MIN { i32::MIN } else { (a + b) as i32 }
}
pub assume_specification [ i32::saturating_sub ] (a: i32, b: i32) -> (r: i32)
    ensures r == i32_sat_sub(a, b);
pub assume_specification [ i32::saturating_add ] (a: i32, b: i32) -> (r: i32)
    ensures r == i32_sat_add(a, b);
pub open spec fn i32_sat_mul(a: i32, b: i32) -> i32 {
    if a * b > i32::MAX { i32::MAX } else if a * b < i32::MIN { i32::MIN } else { (a * b) as i32 }
}
// kani: std_spec_i32_saturating_mul3 (the only multiplier used: 3)
pub assume_specification [ i32::saturating_mul ] (a: i32, b: i32) -> (r: i32)
    ensures r == i32_sat_mul(a, b);
pub open spec fn i32_clamp(v: i32, lo: i32, hi: i32) -> i32 {
    if v < lo { lo } else if v > hi { hi } else { v }
}
pub open spec fn max_spec(a: i32, b: i32) -> i32 { if a >= b { a } else { b } }
pub open spec fn min_spec(a: i32, b: i32) -> i32 { if a <= b { a } else { b } }
pub open spec fn is_scalar_value(i: u32) -> bool { i <= 0xD7FF || (0xE000 <= i && i <= 0x10FFFF) }
// S2 (kani: std_spec_char_from_u32)
pub assume_specification [ char::from_u32 ] (i: u32) -> (r: Option<char>)
    ensures
        is_scalar_value(i) ==> r == Some(i as char),
        !is_scalar_value(i) ==> r.is_none();
// S8 / rule N18 (kani: std_spec_le_bytes, complete over all values): `{u16,i16,u32,i32}::from_le_bytes(..)` is written as a call of these
// wrappers by the extractor (assume_specification cannot name them: their parameter type is `[u8; size_of::<Self>()]`). Stated so that a
// change which starts to use them stays inside the accepted subset (decided) instead of "unsupported std function" (undecided).
#[verifier::external_body]
pub fn vx_u16_from_le_bytes(bytes: [u8; 2]) -> (r: u16)
    ensures r as int == bytes@[0] as int + 256 * (bytes@[1] as int),
{ u16::from_le_bytes(bytes) }
#[verifier::external_body]
pub fn vx_i16_from_le_bytes(bytes: [u8; 2]) -> (r: i16)
    ensures r as int == (if bytes@[1] < 128 { bytes@[0] as int + 256 * (bytes@[1] as int) } else { bytes@[0] as int + 256 * (bytes@[1] as int) - 65536 }),
{ i16::from_le_bytes(bytes) }
#[verifier::external_body]
pub fn vx_u32_from_le_bytes(bytes: [u8; 4]) -> (r: u32)
    ensures r as int == bytes@[0] as int + 256 * (bytes@[1] as int) + 65536 * (bytes@[2] as int) + 16777216 * (bytes@[3] as int),
{ u32::from_le_bytes(bytes) }
#[verifier::external_body]
pub fn vx_i32_from_le_bytes(bytes: [u8; 4]) -> (r: i32)
    ensures r as int == (if bytes@[3] < 128 { bytes@[0] as int + 256 * (bytes@[1] as int) + 65536 * (bytes@[2] as int) + 16777216 * (bytes@[3] as int) }
                         else { bytes@[0] as int + 256 * (bytes@[1] as int) + 65536 * (bytes@[2] as int) + 16777216 * (bytes@[3] as int) - 0x1_0000_0000 }),
{ i32::from_le_bytes(bytes) }
