// S1: local shims for std free functions Verus cannot take generically. Each is discharged against std by a Kani harness
// (kc/lib_harness.rs: std_spec_*).
// S2: assumed specifications of std integer methods (each discharged by a Kani harness std_spec_*).
pub open spec fn i32_sat_sub(a: i32, b: i32) -> i32 {
    if a - b > i32::MAX { i32::MAX } else if a - b < i32::MIN { i32::MIN } else { (a - b) as i32 }
}
pub open spec fn i32_sat_add(a: i32, b: i32) -> i32 {
    if a + b > i32::MAX { i32::MAX } else if a + b < i32::MIN { i32::MIN } else { (a + b) as i32 }
}
pub assume_specification [ i32::saturating_sub ] (a: i32, b: i32) -> (r: i32)
    ensures r == i32_sat_sub(a, b);
pub assume_specification [ i32::saturating_add ] (a: i32, b: i32) -> (r: i32)
    ensures r == i32_sat_add(a, b);
pub open spec fn i32_sat_mul(a: i32, b: i32) -> i32 {
    if a * b > i32::MAX { i32::MAX } else if a * b < i32::MIN { i32::MIN } else { (a * b) as i32 }
}
// kani: std_spec_i32_saturating_mul3 (the only multiplier used: 3)
pub assume_specification [ i32::saturating_mul ] (a: i32, b: i32) -> (r: i32)
    ensures r == i32_sat_mul(a, b);
pub open spec fn i32_clamp(v: i32, lo: i32, hi: i32) -> i32 {
    if v < lo { lo } else if v > hi { hi } else { v }
}
pub open spec fn max_spec(a: i32, b: i32) -> i32 { if a >= b { a } else { b } }
pub open spec fn min_spec(a: i32, b: i32) -> i32 { if a <= b { a } else { b } }
pub open spec fn is_scalar_value(i: u32) -> bool { i <= 0xD7FF || (0xE000 <= i && i <= 0x10FFFF) }
// S2 (kani: std_spec_char_from_u32)
pub assume_specification [ char::from_u32 ] (i: u32) -> (r: Option<char>)
    ensures
        is_scalar_value(i) ==> r == Some(i as char),
        !is_scalar_value(i) ==> r.is_none();
