// S1: local shims for std free functions Verus cannot take generically. Each is discharged against std by a Kani harness
// (kc/lib_harness.rs: std_spec_*).
pub fn max(a: i32, b: i32) -> (r: i32)
    ensures r == (if a >= b { a } else { b }),
{
    if a >= b { a } else { b }
}
pub fn min(a: i32, b: i32) -> (r: i32)
    ensures r == (if a <= b { a } else { b }),
{
    if a <= b { a } else { b }
}
// S2: assumed specifications of std integer methods (each discharged by a Kani harness std_spec_*).
pub open spec fn i32_sat_sub(a: i32, b: i32) -> i32 {
    if a - b > i32::MAX { i32::MAX } else if a - b < i32::MIN { i32::MIN } else { (a - b) as i32 }
}
pub open spec fn i32_sat_add(a: i32, b: i32) -> i32 {
    if a + b > i32::MAX { i32::MAX } else if a + b < i32::MIN { i32::MIN } else { (a + b) as i32 }
}
pub assume_specification [ i32::saturating_sub ] (a: i32, b: i32) -> (r: i32)
    ensures r == i32_sat_sub(a, b);
pub assume_specification [ i32::saturating_add ] (a: i32, b: i32) -> (r: i32)
    ensures r == i32_sat_add(a, b);
pub open spec fn i32_clamp(v: i32, lo: i32, hi: i32) -> i32 {
    if v < lo { lo } else if v > hi { hi } else { v }
}
pub open spec fn max_spec(a: i32, b: i32) -> i32 { if a >= b { a } else { b } }
pub open spec fn min_spec(a: i32, b: i32) -> i32 { if a <= b { a } else { b } }
