// Opaque stand-ins for field types the units never read (rule T1). Nothing about their values is assumed.
#[verifier::external_body]
pub struct OpaqueT1 {}
#[verifier::external_body]
pub struct OpaqueT2 {}
#[verifier::external_body]
pub struct OpaqueT3 {}
#[verifier::external_body]
pub struct OpaqueT4 {}
#[verifier::external_body]
pub struct OpaqueT5 {}
// stand-in for Buffer.sixel_threads: VecDeque<JoinHandle<EngineResult<Sixel>>> (its operations are specified in unit sixel_threads)
#[verifier::external_body]
pub struct VxThreadQueue {}
