// Opaque stand-ins for field types the units never read (rule T1). Nothing about their values is assumed.
#[verifier::external_body]
pub struct OpaqueT1 {}
#[verifier::external_body]
pub struct OpaqueT2 {}
#[verifier::external_body]
pub struct OpaqueT3 {}
#[verifier::external_body]
pub struct OpaqueT4 {}
#[verifier::external_body]
pub struct OpaqueT5 {}
