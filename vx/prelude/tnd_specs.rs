// Tundra Draw command grammar (shared by the writer unit tnd_save and the reader unit tnd_load): the reader is PROVED to paint
// exactly tnd_cells(..) (unit tnd_load), the writer is PROVED to emit a stream whose tnd_cells(..) are the cells of the picture.
pub struct TCell { pub ch: u8, pub fg: (u8, u8, u8), pub bg: (u8, u8, u8) }
pub open spec fn tnd_need(cmd: u8) -> int { 2 + (if cmd & 2 != 0 { 4int } else { 0 }) + (if cmd & 4 != 0 { 4int } else { 0 }) }
pub open spec fn tnd_fg(d: Seq<u8>, o: int, fg: (u8, u8, u8)) -> (u8, u8, u8) { if d[o] & 2 != 0 { (d[o + 3], d[o + 4], d[o + 5]) } else { fg } }
pub open spec fn tnd_bg(d: Seq<u8>, o: int, bg: (u8, u8, u8)) -> (u8, u8, u8) {
    let p = o + 2 + (if d[o] & 2 != 0 { 4int } else { 0 });
    if d[o] & 4 != 0 { (d[p + 1], d[p + 2], d[p + 3]) } else { bg }
}
// the cells a command stream paints, starting at byte o with current colours fg / bg (position commands, which the writer never emits, end the decoding)
pub open spec fn tnd_cells(d: Seq<u8>, o: int, fg: (u8, u8, u8), bg: (u8, u8, u8)) -> Seq<TCell>
    decreases d.len() - o
{
    if o >= d.len() || o < 0 || d[o] == 1 { Seq::empty() }
    else if 2 <= d[o] <= 6 {
        if o + tnd_need(d[o]) > d.len() { Seq::empty() }
        else { seq![TCell { ch: d[o + 1], fg: tnd_fg(d, o, fg), bg: tnd_bg(d, o, bg) }] + tnd_cells(d, o + tnd_need(d[o]), tnd_fg(d, o, fg), tnd_bg(d, o, bg)) }
    } else { seq![TCell { ch: d[o], fg: fg, bg: bg }] + tnd_cells(d, o + 1, fg, bg) }
}
// d[o..] is a whole number of commands; the colours in force after them
pub open spec fn tnd_complete(d: Seq<u8>, o: int) -> bool
    decreases d.len() - o
{
    if o >= d.len() { o == d.len() } else if o < 0 || d[o] == 1 { false } else if 2 <= d[o] <= 6 { o + tnd_need(d[o]) <= d.len() && tnd_complete(d, o + tnd_need(d[o])) } else { tnd_complete(d, o + 1) }
}
pub open spec fn tnd_end(d: Seq<u8>, o: int, fg: (u8, u8, u8), bg: (u8, u8, u8)) -> ((u8, u8, u8), (u8, u8, u8))
    decreases d.len() - o
{
    if o >= d.len() || o < 0 || d[o] == 1 { (fg, bg) } else if 2 <= d[o] <= 6 { if o + tnd_need(d[o]) > d.len() { (fg, bg) } else { tnd_end(d, o + tnd_need(d[o]), tnd_fg(d, o, fg), tnd_bg(d, o, bg)) } } else { tnd_end(d, o + 1, fg, bg) }
}
// one command r that paints cell c when the colours in force are (f, b)
pub open spec fn tnd_record(r: Seq<u8>, f: (u8, u8, u8), b: (u8, u8, u8), c: TCell) -> bool {
    r.len() >= 1 && r[0] != 1 && (
        if 2 <= r[0] <= 6 { r.len() == tnd_need(r[0]) && c == (TCell { ch: r[1], fg: tnd_fg(r, 0, f), bg: tnd_bg(r, 0, b) }) }
        else { r.len() == 1 && c == (TCell { ch: r[0], fg: f, bg: b }) })
}
pub proof fn lemma_need(cmd: u8)
    ensures 2 <= tnd_need(cmd) <= 10,
{}
pub proof fn lemma_tnd_append(d: Seq<u8>, o: int, fg: (u8, u8, u8), bg: (u8, u8, u8), r: Seq<u8>, c: TCell)
    requires 0 <= o <= d.len(), tnd_complete(d, o), tnd_record(r, tnd_end(d, o, fg, bg).0, tnd_end(d, o, fg, bg).1, c),
    ensures tnd_cells(d + r, o, fg, bg) == tnd_cells(d, o, fg, bg).push(c), tnd_complete(d + r, o),
        tnd_end(d + r, o, fg, bg) == (c.fg, c.bg),
    decreases d.len() - o
{
    let d2 = d + r;
    if o == d.len() {
        assert(forall|j: int| 0 <= j < r.len() ==> #[trigger] d2[o + j] == r[j]);
        assert(tnd_cells(d, o, fg, bg) =~= Seq::<TCell>::empty());
        if 2 <= r[0] <= 6 {
            assert(tnd_fg(d2, o, fg) == tnd_fg(r, 0, fg));
            assert(tnd_bg(d2, o, bg) == tnd_bg(r, 0, bg));
            assert(tnd_cells(d2, o + tnd_need(r[0]), c.fg, c.bg) =~= Seq::<TCell>::empty());
            assert(tnd_complete(d2, o + tnd_need(r[0])));
            assert(tnd_end(d2, o + tnd_need(r[0]), c.fg, c.bg) == (c.fg, c.bg));
            assert(tnd_end(d2, o, fg, bg) == (c.fg, c.bg));
        } else {
            assert(tnd_cells(d2, o + 1, fg, bg) =~= Seq::<TCell>::empty());
            assert(tnd_complete(d2, o + 1));
            assert(tnd_end(d2, o + 1, fg, bg) == (fg, bg));
            assert(tnd_end(d, o, fg, bg) == (fg, bg));
            assert(tnd_end(d2, o, fg, bg) == (c.fg, c.bg));
        }
        assert(tnd_cells(d2, o, fg, bg) =~= Seq::<TCell>::empty().push(c));
    } else {
        assert(d2[o] == d[o]);
        if 2 <= d[o] <= 6 {
            let k = tnd_need(d[o]);
            assert(forall|j: int| 0 <= j < k ==> #[trigger] d2[o + j] == d[o + j]);
            assert(tnd_fg(d2, o, fg) == tnd_fg(d, o, fg) && tnd_bg(d2, o, bg) == tnd_bg(d, o, bg));
            lemma_tnd_append(d, o + k, tnd_fg(d, o, fg), tnd_bg(d, o, bg), r, c);
            let head = seq![TCell { ch: d[o + 1], fg: tnd_fg(d, o, fg), bg: tnd_bg(d, o, bg) }];
            assert(d2[o + 1] == d[o + 1]);
            assert((head + tnd_cells(d, o + k, tnd_fg(d, o, fg), tnd_bg(d, o, bg))).push(c) =~= head + tnd_cells(d, o + k, tnd_fg(d, o, fg), tnd_bg(d, o, bg)).push(c));
            assert(tnd_end(d2, o, fg, bg) == tnd_end(d2, o + k, tnd_fg(d, o, fg), tnd_bg(d, o, bg)));
        } else {
            lemma_tnd_append(d, o + 1, fg, bg, r, c);
            let head = seq![TCell { ch: d[o], fg: fg, bg: bg }];
            assert((head + tnd_cells(d, o + 1, fg, bg)).push(c) =~= head + tnd_cells(d, o + 1, fg, bg).push(c));
            assert(tnd_end(d2, o, fg, bg) == tnd_end(d2, o + 1, fg, bg));
        }
    }
}
