// ---- C13: the abstract compositing function, a recursive top-down definition with the case split of the code -------
pub open spec fn TC() -> u32 { 0x8000_0000u32 }        // TextAttribute::TRANSPARENT_COLOR
pub open spec fn has_tc(c: AttributedChar) -> bool {
    c.attribute.foreground_color == TC() || c.attribute.background_color == TC()
}
pub open spec fn vis(c: AttributedChar) -> bool { c.attribute.attr & 0x8000 == 0 }
pub open spec fn transparent_cell(c: AttributedChar) -> bool {
    (c.ch == '\0' || c.ch == ' ') && c.attribute.background_color == 0
}
pub open spec fn merge_spec(c: AttributedChar, ch_opt: Option<char>, attr_opt: Option<TextAttribute>) -> AttributedChar {
    if !vis(c) { c } else {
        AttributedChar {
            ch: if ch_opt is Some { ch_opt->Some_0 } else { c.ch },
            attribute: if attr_opt is Some { attr_opt->Some_0 } else { c.attribute },
        }
    }
}
// HalfBlock::from + the colour substitution of make_solid_color depend on the font table: an uninterpreted function of
// (font table, transparent cell, underlying cell)
pub uninterp spec fn solid(fonts: OpaqueT4, t: AttributedChar, u: AttributedChar) -> AttributedChar;

pub struct CompSt {
    pub ch_opt: Option<char>,
    pub attr_opt: Option<TextAttribute>,
    pub dfp: usize,
    pub tchar: Option<AttributedChar>,
}
pub open spec fn comp_init() -> CompSt { CompSt { ch_opt: None, attr_opt: None, dfp: 0, tchar: None } }
pub open spec fn layer_off(l: Layer) -> Position {
    if l.preview_offset is Some { l.preview_offset->Some_0 } else { l.properties.offset }
}
pub open spec fn finish(b: Buffer, st: CompSt, found: AttributedChar) -> AttributedChar {
    if st.tchar is Some { solid(b.font_table, st.tchar->Some_0, found) } else { found }
}
pub open spec fn comp_final(b: Buffer, st: CompSt) -> AttributedChar {
    if st.tchar is Some { st.tchar->Some_0 } else {
        let c = if b.is_terminal_buffer || st.ch_opt is Some || st.attr_opt is Some {
            merge_spec(default_cell(), st.ch_opt, st.attr_opt)
        } else {
            invisible_cell(0)
        };
        AttributedChar { ch: c.ch, attribute: TextAttribute { font_page: st.dfp, ..c.attribute } }
    }
}
// what the overlay contributes when the walk reaches layer index idx: either a result or an updated state
pub open spec fn overlay_result(b: Buffer, pos: Position, idx: int, st: CompSt) -> Option<AttributedChar> {
    if idx == b.overlay_layer_index && b.overlay_layer is Some {
        let ov = b.overlay_layer->Some_0;
        let o = layer_off(ov);
        let c = layer_cell(ov, pos.x - o.x, pos.y - o.y);
        if !has_tc(c) && vis(c) { Some(finish(b, st, c)) } else { None }
    } else { None }
}
pub open spec fn overlay_state(b: Buffer, pos: Position, idx: int, st: CompSt) -> CompSt {
    if idx == b.overlay_layer_index && b.overlay_layer is Some {
        let ov = b.overlay_layer->Some_0;
        let o = layer_off(ov);
        let c = layer_cell(ov, pos.x - o.x, pos.y - o.y);
        if has_tc(c) && st.tchar is None { CompSt { tchar: Some(c), ..st } } else { st }
    } else { st }
}
pub open spec fn covers(l: Layer, pos: Position) -> bool {
    let o = layer_off(l);
    0 <= pos.x - o.x < l.size.width && 0 <= pos.y - o.y < l.size.height
}
// compositing of layers i-1, i-2, .. 0 (top-down) starting in state st
pub open spec fn comp(b: Buffer, pos: Position, i: int, st: CompSt) -> AttributedChar
    decreases i
{
    if i <= 0 { comp_final(b, st) } else {
        let idx = i - 1;
        let ovr = overlay_result(b, pos, idx, st);
        if ovr is Some { ovr->Some_0 } else {
            let st0 = overlay_state(b, pos, idx, st);
            let l = b.layers[idx];
            if !l.properties.is_visible || !covers(l, pos) { comp(b, pos, idx, st0) } else {
                let o = layer_off(l);
                let c = layer_cell(l, pos.x - o.x, pos.y - o.y);
                let st1 = CompSt { dfp: l.default_font_page, ..st0 };
                match l.properties.mode {
                    Mode::Normal => {
                        let found = merge_spec(c, st1.ch_opt, st1.attr_opt);
                        if vis(c) && !has_tc(found) { finish(b, st1, found) } else {
                            let st2 = if vis(c) && st1.tchar is None { CompSt { tchar: Some(found), ..st1 } } else { st1 };
                            if !l.properties.has_alpha_channel {
                                let res = merge_spec(AttributedChar { ch: ' ', attribute: TextAttribute { font_page: st2.dfp, foreground_color: 7, background_color: 0, attr: 0 } }, st2.ch_opt, st2.attr_opt);
                                if st2.ch_opt is Some || st2.attr_opt is Some {
                                    solid(b.font_table, res, default_cell())
                                } else {
                                    finish(b, st2, res)
                                }
                            } else { comp(b, pos, idx, st2) }
                        }
                    },
                    Mode::Chars => {
                        let st2 = if !transparent_cell(c) { CompSt { ch_opt: Some(c.ch), ..st1 } } else { st1 };
                        comp(b, pos, idx, st2)
                    },
                    Mode::Attributes => {
                        let st2 = if vis(c) { CompSt { attr_opt: Some(c.attribute), ..st1 } } else { st1 };
                        comp(b, pos, idx, st2)
                    },
                }
            }
        }
    }
}
pub open spec fn OFF_CAP() -> int { 0x2000_0000 }
pub open spec fn layer_geo_ok(l: Layer) -> bool {
    &&& -OFF_CAP() <= layer_off(l).x <= OFF_CAP() && -OFF_CAP() <= layer_off(l).y <= OFF_CAP()
    &&& l.lines@.len() <= 0x2000_0000
    &&& forall|y: int| 0 <= y < l.lines@.len() ==> (#[trigger] l.lines@[y]).chars@.len() <= 0x2000_0000
}
pub open spec fn comp_pre(b: Buffer, pos: Position) -> bool {
    &&& -OFF_CAP() <= pos.x <= OFF_CAP() && -OFF_CAP() <= pos.y <= OFF_CAP()
    &&& forall|i: int| 0 <= i < b.layers@.len() ==> layer_geo_ok(#[trigger] b.layers@[i])
    &&& (b.overlay_layer is Some ==> layer_geo_ok(b.overlay_layer->Some_0))
}

// ---- C13: the stacking laws, as lemmas about comp (overlay-free stacks) ----------------------------------------------
// two buffers that agree on everything compositing reads, except possibly on the layers from index n upwards
pub open spec fn same_below(a: Buffer, b: Buffer, n: int) -> bool {
    &&& a.font_table == b.font_table && a.is_terminal_buffer == b.is_terminal_buffer
    &&& a.overlay_layer is None && b.overlay_layer is None
    &&& n <= a.layers@.len() && n <= b.layers@.len()
    &&& forall|k: int| 0 <= k < n ==> a.layers@[k] == b.layers@[k]
}
// locality: compositing of the layers below i does not look at anything else
pub proof fn lemma_comp_local(a: Buffer, b: Buffer, pos: Position, i: int, st: CompSt)
    requires same_below(a, b, i), 0 <= i,
    ensures comp(a, pos, i, st) == comp(b, pos, i, st),
    decreases i
{
    if i > 0 {
        let idx = i - 1;
        assert(a.layers@[idx] == b.layers@[idx]);
        assert(a.layers[idx] == b.layers[idx]);
        let l = a.layers[idx];
        let st0 = overlay_state(a, pos, idx, st);
        assert(st0 == st && overlay_state(b, pos, idx, st) == st);
        let o = layer_off(l);
        let c = layer_cell(l, pos.x - o.x, pos.y - o.y);
        let st1 = CompSt { dfp: l.default_font_page, ..st0 };
        lemma_comp_local(a, b, pos, idx, st0);
        lemma_comp_local(a, b, pos, idx, st1);
        let found = merge_spec(c, st1.ch_opt, st1.attr_opt);
        lemma_comp_local(a, b, pos, idx, CompSt { tchar: Some(found), ..st1 });
        lemma_comp_local(a, b, pos, idx, CompSt { ch_opt: Some(c.ch), ..st1 });
        lemma_comp_local(a, b, pos, idx, CompSt { attr_opt: Some(c.attribute), ..st1 });
    }
}
// b2 is b with layer j removed
pub open spec fn removed_layer(b: Buffer, b2: Buffer, j: int) -> bool {
    &&& b.font_table == b2.font_table && b.is_terminal_buffer == b2.is_terminal_buffer
    &&& b.overlay_layer is None && b2.overlay_layer is None
    &&& 0 <= j < b.layers@.len() && b2.layers@ == b.layers@.remove(j)
}
// LAW 1+2: a hidden layer, or a layer that does not cover the position, never influences the result
pub proof fn lemma_skip_layer(b: Buffer, b2: Buffer, j: int, pos: Position, i: int, st: CompSt)
    requires
        removed_layer(b, b2, j),
        !b.layers@[j].properties.is_visible || !covers(b.layers@[j], pos),
        j < i <= b.layers@.len(),
    ensures comp(b, pos, i, st) == comp(b2, pos, i - 1, st),
    decreases i
{
    let idx = i - 1;
    assert(overlay_state(b, pos, idx, st) == st);
    if idx == j {
        assert(b.layers[idx] == b.layers@[j]);
        assert(comp(b, pos, i, st) == comp(b, pos, idx, st));
        assert forall|k: int| 0 <= k < j implies b.layers@[k] == b2.layers@[k] by {}
        lemma_comp_local(b, b2, pos, j, st);
    } else {
        assert(b.layers@[idx] == b2.layers@[idx - 1]);
        assert(b.layers[idx] == b2.layers[idx - 1]);
        let l = b.layers[idx];
        let o = layer_off(l);
        let c = layer_cell(l, pos.x - o.x, pos.y - o.y);
        let st1 = CompSt { dfp: l.default_font_page, ..st };
        let found = merge_spec(c, st1.ch_opt, st1.attr_opt);
        assert(overlay_state(b2, pos, idx - 1, st) == st);
        lemma_skip_layer(b, b2, j, pos, idx, st);
        lemma_skip_layer(b, b2, j, pos, idx, st1);
        lemma_skip_layer(b, b2, j, pos, idx, CompSt { tchar: Some(found), ..st1 });
        lemma_skip_layer(b, b2, j, pos, idx, CompSt { ch_opt: Some(c.ch), ..st1 });
        lemma_skip_layer(b, b2, j, pos, idx, CompSt { attr_opt: Some(c.attribute), ..st1 });
    }
}
// LAW 3: an alpha layer whose cell at the position is invisible passes everything through; the only thing it leaves
// behind is its default font page (which a later covering layer overwrites, and which only the font page of a final
// default cell can show)
pub proof fn lemma_empty_alpha_layer(b: Buffer, pos: Position, i: int, st: CompSt)
    requires
        b.overlay_layer is None, 0 < i <= b.layers@.len(),
        b.layers@[i - 1].properties.is_visible, covers(b.layers@[i - 1], pos),
        b.layers@[i - 1].properties.mode is Normal, b.layers@[i - 1].properties.has_alpha_channel,
        !vis(layer_cell(b.layers@[i - 1], pos.x - layer_off(b.layers@[i - 1]).x, pos.y - layer_off(b.layers@[i - 1]).y)),
    ensures comp(b, pos, i, st) == comp(b, pos, i - 1, CompSt { dfp: b.layers@[i - 1].default_font_page, ..st }),
{
    assert(b.layers[i - 1] == b.layers@[i - 1]);
    assert(overlay_state(b, pos, i - 1, st) == st);
}
// LAW 4: an opaque (non-alpha, Normal) visible layer hides everything beneath it inside its rectangle
pub proof fn lemma_opaque_hides(a: Buffer, b: Buffer, pos: Position, i: int, st: CompSt)
    requires
        a.overlay_layer is None, b.overlay_layer is None, a.font_table == b.font_table,
        0 < i <= a.layers@.len(), i <= b.layers@.len(), a.layers@[i - 1] == b.layers@[i - 1],
        a.layers@[i - 1].properties.is_visible, covers(a.layers@[i - 1], pos),
        a.layers@[i - 1].properties.mode is Normal, !a.layers@[i - 1].properties.has_alpha_channel,
    ensures comp(a, pos, i, st) == comp(b, pos, i, st),       // whatever lies below index i - 1 in a and in b
{
    assert(a.layers[i - 1] == a.layers@[i - 1] && b.layers[i - 1] == b.layers@[i - 1]);
    assert(overlay_state(a, pos, i - 1, st) == st && overlay_state(b, pos, i - 1, st) == st);
}
// LAW 5: moving every layer by d moves its contribution by exactly d
pub open spec fn layer_moved(l: Layer, l2: Layer, d: Position) -> bool {
    &&& l2.lines == l.lines && l2.size == l.size && l2.default_font_page == l.default_font_page
    &&& l2.properties.is_visible == l.properties.is_visible && l2.properties.mode == l.properties.mode
    &&& l2.properties.has_alpha_channel == l.properties.has_alpha_channel
    &&& layer_off(l2).x == layer_off(l).x + d.x && layer_off(l2).y == layer_off(l).y + d.y
}
pub proof fn lemma_translate(b: Buffer, b2: Buffer, d: Position, pos: Position, pos2: Position, i: int, st: CompSt)
    requires
        b.overlay_layer is None, b2.overlay_layer is None, b.font_table == b2.font_table, b.is_terminal_buffer == b2.is_terminal_buffer,
        b.layers@.len() == b2.layers@.len(), 0 <= i <= b.layers@.len(),
        forall|k: int| 0 <= k < b.layers@.len() ==> layer_moved(#[trigger] b.layers@[k], b2.layers@[k], d),
        pos2.x == pos.x + d.x && pos2.y == pos.y + d.y,
    ensures comp(b2, pos2, i, st) == comp(b, pos, i, st),
    decreases i
{
    if i > 0 {
        let idx = i - 1;
        let l = b.layers[idx]; let l2 = b2.layers[idx];
        assert(layer_moved(b.layers@[idx], b2.layers@[idx], d));
        assert(overlay_state(b, pos, idx, st) == st && overlay_state(b2, pos2, idx, st) == st);
        let o = layer_off(l); let o2 = layer_off(l2);
        let c = layer_cell(l, pos.x - o.x, pos.y - o.y);
        assert(c == layer_cell(l2, pos2.x - o2.x, pos2.y - o2.y));
        assert(covers(l, pos) == covers(l2, pos2));
        let st1 = CompSt { dfp: l.default_font_page, ..st };
        let found = merge_spec(c, st1.ch_opt, st1.attr_opt);
        lemma_translate(b, b2, d, pos, pos2, idx, st);
        lemma_translate(b, b2, d, pos, pos2, idx, st1);
        lemma_translate(b, b2, d, pos, pos2, idx, CompSt { tchar: Some(found), ..st1 });
        lemma_translate(b, b2, d, pos, pos2, idx, CompSt { ch_opt: Some(c.ch), ..st1 });
        lemma_translate(b, b2, d, pos, pos2, idx, CompSt { attr_opt: Some(c.attribute), ..st1 });
    }
}
