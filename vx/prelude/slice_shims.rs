// O1 stub for `SLICE.iter().position(|c| *c == X)` (iterator adapter + closure): ASSUMED spec = first index holding X
#[verifier::external_body]
pub fn vx_slice_position(s: &[u8], x: u8) -> (r: Option<usize>)
    ensures
        r matches Some(i) ==> i < s@.len() && s@[i as int] == x,
        r.is_none() ==> forall|j: int| 0 <= j < s@.len() ==> s@[j] != x,
{
    s.iter().position(|c| *c == x)
}
// O1 stub for `(LO..=HI).contains(&ch)` on chars (RangeInclusive::contains is generic over PartialOrd<U>):
// ASSUMED spec, discharged by the Kani harness std_spec_char_range_contains
#[verifier::external_body]
pub fn vx_char_in_range(lo: char, hi: char, c: char) -> (r: bool)
    ensures r == (lo <= c && c <= hi),
{
    (lo..=hi).contains(&c)
}
