// N6: error payloads are not part of any property. `anyhow::Error` / `EngineResult` become a local opaque error.
#[verifier::external_body]
pub struct AnyErr {}
pub type EngineResult<T> = Result<T, AnyErr>;
#[verifier::external_body]
pub fn opaque_error<T>(t: T) -> (r: AnyErr) {
    unimplemented!()
}
#[verifier::external_body]
pub fn opaque_string<T>(t: T) -> (r: String) {
    unimplemented!()
}

// N15 (ASSUMED): the characters of a String, in order, as a vector (stands for `.chars()`)
#[verifier::external_body]
pub fn vx_chars(s: String) -> (r: Vec<char>) { s.chars().collect() }
