// N6: error payloads are not part of any property. `anyhow::Error` / `EngineResult` become a local opaque error.
#[verifier::external_body]
pub struct AnyErr {}
pub type EngineResult<T> = Result<T, AnyErr>;
#[verifier::external_body]
pub fn opaque_error<T>(t: T) -> (r: AnyErr) {
    unimplemented!()
}
#[verifier::external_body]
pub fn opaque_string<T>(t: T) -> (r: String) {
    unimplemented!()
}

// N15 (ASSUMED): the characters of a String, in order, as a vector (stands for `.chars()`)
#[verifier::external_body]
pub fn vx_chars(s: String) -> (r: Vec<char>) { s.chars().collect() }
// N15 by_ref=1 (ASSUMED): the characters of a string, in order; ASSUMED machine bound: parser strings hold fewer than 2^31 characters
#[verifier::external_body]
pub fn vx_chars_ref(s: &String) -> (r: Vec<char>)
    ensures r@ == s@, r@.len() < 0x7fff_0000,
{ s.chars().collect() }

// N17: todo!() / unimplemented!() / unreachable!() / panic!() in extracted code: reaching one is a panic, i.e. an obligation `false`
#[verifier::external_body]
pub fn vx_panics<T>() -> (r: T)
    requires false,
{ unimplemented!() }
