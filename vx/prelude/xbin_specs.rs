// ---- C06: the XBin run-length format as an independent decoder specification (doc/FileFormats/x_bin.htm) -------------
// a cell of the image = (character byte, attribute byte)
pub open spec fn xb_count(h: u8) -> int { (h & 0x3F) as int + 1 }          // 1..=64 cells per run
pub open spec fn xb_type(h: u8) -> u8 { h & 0xC0 }
// number of bytes of the run that starts with header h
pub open spec fn xb_run_len(h: u8) -> int {
    let n = xb_count(h);
    if xb_type(h) == 0x00 { 1 + 2 * n } else if xb_type(h) == 0x40 { 2 + n } else if xb_type(h) == 0x80 { 2 + n } else { 3 }
}
// cell i of the run starting at bytes[0]
pub open spec fn xb_run_cell(bytes: Seq<u8>, i: int) -> (u8, u8) {
    let h = bytes[0];
    if xb_type(h) == 0x00 { (bytes[1 + 2 * i], bytes[2 + 2 * i]) }
    else if xb_type(h) == 0x40 { (bytes[1], bytes[2 + i]) }
    else if xb_type(h) == 0x80 { (bytes[2 + i], bytes[1]) }
    else { (bytes[1], bytes[2]) }
}
// bytes is a sequence of complete runs that decodes to exactly `cells`
pub open spec fn decodes_to(bytes: Seq<u8>, cells: Seq<(u8, u8)>) -> bool
    decreases bytes.len()
{
    if bytes.len() == 0 { cells.len() == 0 } else {
        let h = bytes[0];
        let n = xb_count(h);
        let k = xb_run_len(h);
        &&& k <= bytes.len()
        &&& n <= cells.len()
        &&& forall|i: int| 0 <= i < n ==> cells[i] == #[trigger] xb_run_cell(bytes, i)
        &&& decodes_to(bytes.skip(k), cells.skip(n))
    }
}
// one well-formed run r that encodes the cells c
pub open spec fn run_encodes(r: Seq<u8>, c: Seq<(u8, u8)>) -> bool {
    &&& r.len() >= 1 && r.len() == xb_run_len(r[0]) && c.len() == xb_count(r[0])
    &&& forall|i: int| 0 <= i < c.len() ==> c[i] == #[trigger] xb_run_cell(r, i)
}
pub proof fn lemma_count_bounds(h: u8)
    ensures 1 <= xb_count(h) <= 64, xb_type(h) == 0x00 || xb_type(h) == 0x40 || xb_type(h) == 0x80 || xb_type(h) == 0xC0,
{
    assert((h & 0x3F) <= 63 && (h & 0xC0 == 0x00 || h & 0xC0 == 0x40 || h & 0xC0 == 0x80 || h & 0xC0 == 0xC0)) by(bit_vector);
}
// appending one run at the end
pub proof fn lemma_append_run(a: Seq<u8>, ca: Seq<(u8, u8)>, r: Seq<u8>, cr: Seq<(u8, u8)>)
    requires decodes_to(a, ca), run_encodes(r, cr),
    ensures decodes_to(a + r, ca + cr),
    decreases a.len()
{
    lemma_count_bounds(r[0]);
    if a.len() == 0 {
        assert(a + r =~= r);
        assert(ca + cr =~= cr);
        assert(r.skip(xb_run_len(r[0])) =~= Seq::<u8>::empty());
        assert(cr.skip(xb_count(r[0])) =~= Seq::<(u8, u8)>::empty());
        assert(decodes_to(r.skip(xb_run_len(r[0])), cr.skip(xb_count(r[0]))));
    } else {
        let h = a[0]; let n = xb_count(h); let k = xb_run_len(h);
        lemma_count_bounds(h);
        lemma_append_run(a.skip(k), ca.skip(n), r, cr);
        assert((a + r).skip(k) =~= a.skip(k) + r);
        assert((ca + cr).skip(n) =~= ca.skip(n) + cr);
        assert((a + r)[0] == h);
        assert forall|i: int| 0 <= i < n implies (ca + cr)[i] == #[trigger] xb_run_cell(a + r, i) by {
            assert(ca[i] == xb_run_cell(a, i));
            assert((ca + cr)[i] == ca[i]);
        }
    }
}
// ---- the decoder side: total functions of the byte stream ---------------------------------------------------------
// every run of the stream is complete
pub open spec fn xb_wf(bytes: Seq<u8>) -> bool
    decreases bytes.len()
{
    if bytes.len() == 0 { true } else { let k = xb_run_len(bytes[0]); k <= bytes.len() && xb_wf(bytes.skip(k)) }
}
pub open spec fn xb_run_cells(bytes: Seq<u8>) -> Seq<(u8, u8)> {
    Seq::new(xb_count(bytes[0]) as nat, |i: int| xb_run_cell(bytes, i))
}
// the cells of a stream of complete runs, in order
pub open spec fn xb_cells(bytes: Seq<u8>) -> Seq<(u8, u8)>
    decreases bytes.len()
{
    if bytes.len() == 0 { Seq::empty() } else {
        let k = xb_run_len(bytes[0]);
        if k <= bytes.len() { xb_run_cells(bytes) + xb_cells(bytes.skip(k)) } else { Seq::empty() }
    }
}
pub proof fn lemma_decodes_wf(bytes: Seq<u8>, cells: Seq<(u8, u8)>)
    requires decodes_to(bytes, cells),
    ensures xb_wf(bytes), xb_cells(bytes) == cells,
    decreases bytes.len()
{
    if bytes.len() > 0 {
        let h = bytes[0]; let n = xb_count(h); let k = xb_run_len(h);
        lemma_count_bounds(h);
        lemma_decodes_wf(bytes.skip(k), cells.skip(n));
        assert(xb_run_cells(bytes) =~= cells.take(n));
        assert(cells.take(n) + cells.skip(n) =~= cells);
    } else {
        assert(cells =~= Seq::<(u8, u8)>::empty());
    }
}
// where the n-th cell of the image data goes: row-major with the wrap of advance_pos
pub open spec fn adv(w: int, p: (int, int)) -> (int, int) { if p.0 + 1 >= w { (0, p.1 + 1) } else { (p.0 + 1, p.1) } }
pub open spec fn pos_at(w: int, n: nat) -> (int, int)
    decreases n
{
    if n == 0 { (0, 0) } else { adv(w, pos_at(w, (n - 1) as nat)) }
}
pub open spec fn lex_lt(a: (int, int), b: (int, int)) -> bool { a.1 < b.1 || (a.1 == b.1 && a.0 < b.0) }
pub proof fn lemma_pos_bounds(w: int, n: nat)
    ensures 0 <= pos_at(w, n).0 <= n, 0 <= pos_at(w, n).1 <= n, w >= 1 ==> pos_at(w, n).0 < w,
    decreases n
{
    if n > 0 { lemma_pos_bounds(w, (n - 1) as nat); }
}
pub proof fn lemma_pos_mono(w: int, n: nat, m: nat)
    requires n < m,
    ensures lex_lt(pos_at(w, n), pos_at(w, m)),
    decreases m
{
    lemma_pos_bounds(w, (m - 1) as nat);
    if n < m - 1 { lemma_pos_mono(w, n, (m - 1) as nat); }
}
