// ---- shared specifications for the terminal core (DESIGN.md 4) --------------------------------------------
pub open spec fn CAP() -> int { 0x2000_0000 }   // 2^29: "machine arithmetic" cap on every size and coordinate

pub open spec fn invisible_cell(font_page: usize) -> AttributedChar {
    AttributedChar { ch: ' ', attribute: TextAttribute { font_page: font_page, foreground_color: 7, background_color: 0, attr: 0x8000 } }
}
pub open spec fn default_cell() -> AttributedChar {
    AttributedChar { ch: ' ', attribute: TextAttribute { font_page: 0, foreground_color: 7, background_color: 0, attr: 0 } }
}
// abstract view of a layer: the cell shown at (x, y)
pub open spec fn layer_cell(l: Layer, x: int, y: int) -> AttributedChar {
    if 0 <= x < l.size.width && 0 <= y < l.size.height && y < l.lines.len() && x < l.lines[y].chars.len() {
        l.lines[y].chars[x]
    } else {
        invisible_cell(l.default_font_page)
    }
}
// every size of a layer is at most k
// (no layer is wider than 2^20 columns - loaded pictures are at most 65535 columns wide, terminals 132: the bound that keeps the column of a
// cursor on a non-terminal buffer, which wraps at the layer width, inside caret_ok)
pub open spec fn layer_ok(l: Layer, k: int) -> bool {
    &&& 0 <= l.size.width <= k && l.size.width <= 0x10_0000
    &&& 0 <= l.size.height <= k
    &&& l.lines.len() <= k
    &&& forall|y: int| 0 <= y < l.lines.len() ==> (#[trigger] l.lines[y]).chars.len() <= k
}
pub open spec fn margins_safe(ts: TerminalState) -> bool {
    &&& (ts.margins_top_bottom matches Some(m) ==> 0 <= m.0 <= m.1 < 132)
    &&& (ts.margins_left_right matches Some(m) ==> 0 <= m.0 <= m.1 < 132)
}
pub open spec fn tabs_safe(ts: TerminalState) -> bool {
    forall|i: int| 0 <= i < ts.tab_stops.len() ==> 0 <= #[trigger] ts.tab_stops[i] <= 0x10_0000
}
pub open spec fn ts_ok(ts: TerminalState) -> bool {
    &&& 1 <= ts.size.width <= 132
    &&& 1 <= ts.size.height <= 60
    &&& margins_safe(ts)
    &&& tabs_safe(ts)
    // reachable-state fact: no emulation ever selects OriginMode::WithinMargins (the DECOM arm is commented out)
    &&& ts.origin_mode is UpperLeftCorner
}
// the state invariant panic-freedom needs (C01); k bounds every size (k <= CAP)
// which kind of buffer a run of the unit covers. The check of each property instantiates the marker below (props.py `buffer_kind`):
// C01 / C09 speak about terminal buffers only, C02 about the buffers the file loaders build (is_terminal_buffer == false), C03 about both.
// A change that breaks only one side must not raise an alarm for the property of the other side.
pub open spec fn vx_buffer_kind(b: Buffer) -> bool { /*@VX_BUFFER_KIND@*/ true }
pub open spec fn buf_ok(b: Buffer, k: int) -> bool {
    &&& vx_buffer_kind(b)
    &&& b.layers.len() >= 1
    &&& forall|i: int| 0 <= i < b.layers.len() ==> layer_ok(#[trigger] b.layers[i], k)
    &&& ts_ok(b.terminal_state)
    &&& 0 <= b.size.width <= k
    &&& 0 <= b.size.height <= k
    &&& b.terminal_state.tab_stops.len() <= k
    &&& k <= CAP()
}
pub open spec fn caret_ok(c: Caret, k: int) -> bool {
    0 <= c.pos.x <= 0x10_0000 && c.pos.x <= k && 0 <= c.pos.y <= k
}
pub open spec fn first_visible(b: Buffer) -> int {
    if b.is_terminal_buffer {
        if i32_sat_sub(b.size.height, b.terminal_state.size.height) > 0 { i32_sat_sub(b.size.height, b.terminal_state.size.height) as int } else { 0 }
    } else { 0 }
}
// C09: the cursor lies inside the visible screen
// (a property of terminal buffers: while a file is being loaded - is_terminal_buffer == false - the picture grows downwards without a view)
pub open spec fn caret_in_view(b: Buffer, c: Caret) -> bool {
    b.is_terminal_buffer ==> {
        &&& 0 <= c.pos.x < b.terminal_state.size.width
        &&& first_visible(b) <= c.pos.y < first_visible(b) + b.terminal_state.size.height
    }
}

pub open spec fn pos_of<P: Into<Position>>(p: P) -> Position {
    <P as vstd::std_specs::convert::IntoSpec<Position>>::into_spec(p)
}
pub open spec fn into_ok<P: Into<Position>>() -> bool {
    <P as vstd::std_specs::convert::IntoSpec<Position>>::obeys_into_spec()
}
pub open spec fn cell_equiv(a: AttributedChar, b: AttributedChar) -> bool {
    a == b || (a.attribute.attr & 0x8000 != 0 && b.attribute.attr & 0x8000 != 0)
}
// everything of a layer except `lines` and `sixels`
pub open spec fn layer_frame(a: Layer, b: Layer) -> bool {
    &&& a.role == b.role
    &&& a.transparency == b.transparency
    &&& a.properties == b.properties
    &&& a.default_font_page == b.default_font_page
    &&& a.preview_offset == b.preview_offset
    &&& a.size == b.size
    &&& a.hyperlinks == b.hyperlinks
}
impl Layer {
    // O1: stands for the statement `self.sixels.retain(|x| ..float geometry..)` of Layer::set_char.
    // ASSUMED frame: only `self.sixels` changes.
    #[verifier::external_body]
    pub fn vx_retain_sixels(&mut self, pos: Position, font_dims: Size)
        ensures
            layer_frame(*old(self), *final(self)),
            final(self).lines == old(self).lines,
    {
        unimplemented!()
    }
}

// S4 (ASSUMED): `#[derive(Clone)]` on Line is structural.
impl Clone for Line {
    #[verifier::external_body]
    fn clone(&self) -> (r: Self)
        ensures r == *self,
    {
        Line { chars: self.chars.clone() }
    }
}
// S4 (ASSUMED): `#[derive(Clone)]` on layer::Properties is structural (offered so that changed code which starts to copy layer properties is
// checked against what that copy does, instead of stopping at "no method named clone")
impl Clone for Properties {
    #[verifier::external_body]
    fn clone(&self) -> (r: Self)
        ensures r == *self,
    { unimplemented!() }
}
// S6 (ASSUMED): std's blanket `impl<T> From<T> for T` is the identity (Position -> Position).
#[verifier::external_body]
pub proof fn axiom_position_into_self()
    ensures
        into_ok::<Position>(),
        forall|p: Position| #[trigger] pos_of::<Position>(p) == p,
{
}
pub open spec fn first_editable(b: Buffer) -> int {
    if b.is_terminal_buffer && b.terminal_state.margins_top_bottom.is_some() {
        first_visible(b) + b.terminal_state.margins_top_bottom.unwrap().0
    } else { first_visible(b) }
}
pub open spec fn last_editable(b: Buffer) -> int {
    if b.is_terminal_buffer {
        if b.terminal_state.margins_top_bottom.is_some() { first_visible(b) + b.terminal_state.margins_top_bottom.unwrap().1 }
        else { first_visible(b) + b.size.height - 1 }
    } else {
        if b.layers[0].lines.len() as i32 >= b.size.height - 1 { b.layers[0].lines.len() as int } else { b.size.height - 1 }
    }
}
pub open spec fn first_editable_col(b: Buffer) -> int {
    if b.is_terminal_buffer && b.terminal_state.margins_left_right.is_some() { b.terminal_state.margins_left_right.unwrap().0 as int } else { 0 }
}
pub open spec fn last_editable_col(b: Buffer) -> int {
    if b.is_terminal_buffer && b.terminal_state.margins_left_right.is_some() { b.terminal_state.margins_left_right.unwrap().1 as int }
    else { i32_sat_sub(b.size.width, 1) as int }
}
// everything of a caret except its position
pub open spec fn caret_frame(a: Caret, b: Caret) -> bool {
    a.attribute == b.attribute && a.insert_mode == b.insert_mode && a.is_visible == b.is_visible
        && a.is_blinking == b.is_blinking && a.ice_mode == b.ice_mode
}
// C09 needs the stronger margin shape: inside the screen
pub open spec fn margins_view_ok(ts: TerminalState) -> bool {
    &&& (ts.margins_top_bottom matches Some(m) ==> 0 <= m.0 <= m.1 < ts.size.height)
    &&& (ts.margins_left_right matches Some(m) ==> 0 <= m.0 <= m.1 < ts.size.width)
}
pub open spec fn size_of_arg<S: Into<Size>>(p: S) -> Size {
    <S as vstd::std_specs::convert::IntoSpec<Size>>::into_spec(p)
}
pub open spec fn size_into_ok<S: Into<Size>>() -> bool {
    <S as vstd::std_specs::convert::IntoSpec<Size>>::obeys_into_spec()
}
#[verifier::external_body]
pub proof fn axiom_size_into_self()     // S6 (ASSUMED): impl<T> From<T> for T is the identity
    ensures
        size_into_ok::<Size>(),
        forall|p: Size| #[trigger] size_of_arg::<Size>(p) == p,
{
}
// frames of a Buffer: which fields an operation may change
pub open spec fn buf_frame_common(a: Buffer, b: Buffer) -> bool {
    &&& a.buffer_type == b.buffer_type && a.ice_mode == b.ice_mode && a.palette_mode == b.palette_mode && a.font_mode == b.font_mode
    &&& a.is_terminal_buffer == b.is_terminal_buffer
    &&& a.overlay_layer_index == b.overlay_layer_index && a.overlay_layer == b.overlay_layer
    &&& a.is_font_table_dirty == b.is_font_table_dirty && a.palette == b.palette && a.font_table == b.font_table
}
pub open spec fn buf_frame_ts(a: Buffer, b: Buffer) -> bool {      // only terminal_state changes
    buf_frame_common(a, b) && a.size == b.size && a.layers == b.layers && a.sauce_data == b.sauce_data
}
// the metadata of a SAUCE record: everything but the mirrored buffer size
pub open spec fn sauce_meta_eq(a: Option<SauceData>, b: Option<SauceData>) -> bool {
    (a is Some) == (b is Some) && (a is Some ==> {
        let x = a->Some_0; let y = b->Some_0;
        x.title == y.title && x.author == y.author && x.group == y.group && x.comments == y.comments && x.creation_time == y.creation_time
        && x.use_ice == y.use_ice && x.use_letter_spacing == y.use_letter_spacing && x.use_aspect_ratio == y.use_aspect_ratio
    })
}
pub open spec fn buf_frame_size(a: Buffer, b: Buffer) -> bool {    // only size (and its SAUCE mirror) changes
    buf_frame_common(a, b) && a.terminal_state == b.terminal_state && a.layers == b.layers && sauce_meta_eq(a.sauce_data, b.sauce_data)
}
pub open spec fn buf_frame_threads(a: Buffer, b: Buffer) -> bool { // only sixel_threads changes
    buf_frame_common(a, b) && a.size == b.size && a.terminal_state == b.terminal_state && a.layers == b.layers && a.sauce_data == b.sauce_data
}
// an operation that rewrites cells only: every size, every flag, the terminal state and the number of layers
// are unchanged, and no layer grows beyond any bound it satisfied before
pub open spec fn buf_same_shape(a: Buffer, b: Buffer) -> bool {
    &&& buf_frame_common(a, b)
    &&& a.size == b.size && a.terminal_state == b.terminal_state && a.sauce_data == b.sauce_data
    &&& a.layers@.len() == b.layers@.len()
    &&& forall|i: int| 0 <= i < a.layers@.len() ==> layer_frame(#[trigger] a.layers@[i], b.layers@[i])
    &&& forall|i: int, k: int| 0 <= i < a.layers@.len() && layer_ok(a.layers@[i], k) && k >= 0x10_0001 && a.size.width <= k ==> #[trigger] layer_ok(b.layers@[i], k)
}
// only `lines` (and sixels) of layer li change
pub open spec fn buf_lines_only(a: Buffer, b: Buffer, li: int) -> bool {
    &&& buf_frame_common(a, b)
    &&& a.size == b.size && a.terminal_state == b.terminal_state && a.sauce_data == b.sauce_data
    &&& a.layers@.len() == b.layers@.len()
    &&& forall|i: int| 0 <= i < a.layers@.len() && i != li ==> #[trigger] b.layers@[i] == a.layers@[i]
    &&& layer_frame(a.layers@[li], b.layers@[li])
}
// ---- the inductive state invariant of a terminal session (C01) --------------------------------------------
// k is a growth budget: every size and the cursor are at most k. One character grows k by at most 2.
pub open spec fn term_inv(b: Buffer, c: Caret, k: int) -> bool {
    buf_ok(b, k) && caret_ok(c, k) && k >= 0x10_0001
}
// the part of the invariant Caret::lf needs: the column is irrelevant (lf resets it)
pub open spec fn term_inv_y(b: Buffer, c: Caret, k: int) -> bool {
    buf_ok(b, k) && 0 <= c.pos.y <= k && k >= 0x10_0001
}
pub open spec fn term_step(b0: Buffer, c0: Caret, b1: Buffer, c1: Caret, g: int) -> bool {
    &&& b1.is_terminal_buffer == b0.is_terminal_buffer
    &&& b1.layers@.len() == b0.layers@.len()
    &&& b1.terminal_state.size == b0.terminal_state.size
    &&& forall|k: int| #![trigger term_inv(b0, c0, k)] #![trigger buf_ok(b0, k)] buf_ok(b0, k) && caret_ok(c0, k) && k >= 0x10_0001 && term_inv(b0, c0, k) && k + g <= CAP() ==> term_inv(b1, c1, k + g)
}
pub open spec fn row_in_view(b: Buffer, c: Caret) -> bool {
    b.is_terminal_buffer ==> first_visible(b) <= c.pos.y < first_visible(b) + b.terminal_state.size.height
}
pub proof fn lemma_same_shape_trans(a: Buffer, b: Buffer, c: Buffer)
    requires buf_same_shape(a, b), buf_same_shape(b, c),
    ensures buf_same_shape(a, c),
{
    assert forall|i: int, k: int| 0 <= i < a.layers@.len() && layer_ok(a.layers@[i], k) && k >= 0x10_0001 && a.size.width <= k
        implies #[trigger] layer_ok(c.layers@[i], k) by {
        assert(layer_ok(b.layers@[i], k));
    }
    assert forall|i: int| 0 <= i < a.layers@.len() implies layer_frame(#[trigger] a.layers@[i], c.layers@[i]) by {
        assert(layer_frame(a.layers@[i], b.layers@[i]));
        assert(layer_frame(b.layers@[i], c.layers@[i]));
    }
}
// an operation that only rewrites cells preserves the state invariant for the same caret
pub proof fn lemma_same_shape_inv(a: Buffer, b: Buffer, c: Caret, k: int)
    requires buf_same_shape(a, b), term_inv(a, c, k),
    ensures term_inv(b, c, k),
{
    assert forall|i: int| 0 <= i < b.layers@.len() implies layer_ok(#[trigger] b.layers@[i], k) by {
        assert(layer_ok(a.layers@[i], k));
    }
}
