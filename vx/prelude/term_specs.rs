// ---- shared specifications for the terminal core (DESIGN.md 4) --------------------------------------------
pub open spec fn CAP() -> int { 0x100_0000 }   // 2^24: "machine arithmetic" cap on every size and coordinate

pub open spec fn invisible_cell(font_page: usize) -> AttributedChar {
    AttributedChar { ch: ' ', attribute: TextAttribute { font_page: font_page, foreground_color: 7, background_color: 0, attr: 0x8000 } }
}
pub open spec fn default_cell() -> AttributedChar {
    AttributedChar { ch: ' ', attribute: TextAttribute { font_page: 0, foreground_color: 7, background_color: 0, attr: 0 } }
}
// abstract view of a layer: the cell shown at (x, y)
pub open spec fn layer_cell(l: Layer, x: int, y: int) -> AttributedChar {
    if 0 <= x < l.size.width && 0 <= y < l.size.height && y < l.lines.len() && x < l.lines[y].chars.len() {
        l.lines[y].chars[x]
    } else {
        invisible_cell(l.default_font_page)
    }
}
// every size of a layer is at most k
pub open spec fn layer_ok(l: Layer, k: int) -> bool {
    &&& 0 <= l.size.width <= k
    &&& 0 <= l.size.height <= k
    &&& l.lines.len() <= k
    &&& forall|y: int| 0 <= y < l.lines.len() ==> (#[trigger] l.lines[y]).chars.len() <= k
}
pub open spec fn margins_safe(ts: TerminalState) -> bool {
    &&& (ts.margins_top_bottom matches Some(m) ==> -1 <= m.0 <= m.1 < 0x10_0000)
    &&& (ts.margins_left_right matches Some(m) ==> -1 <= m.0 <= m.1 < 0x10_0000)
}
pub open spec fn tabs_safe(ts: TerminalState) -> bool {
    forall|i: int| 0 <= i < ts.tab_stops.len() ==> 0 <= #[trigger] ts.tab_stops[i] < 0x10_0000
}
pub open spec fn ts_ok(ts: TerminalState) -> bool {
    &&& 1 <= ts.size.width <= 132
    &&& 1 <= ts.size.height <= 60
    &&& margins_safe(ts)
    &&& tabs_safe(ts)
    &&& ts.tab_stops.len() < 0x10_0000
}
// the state invariant panic-freedom needs (C01); k bounds every size (k <= CAP)
pub open spec fn buf_ok(b: Buffer, k: int) -> bool {
    &&& b.layers.len() >= 1
    &&& forall|i: int| 0 <= i < b.layers.len() ==> layer_ok(#[trigger] b.layers[i], k)
    &&& ts_ok(b.terminal_state)
    &&& 0 <= b.size.width <= k
    &&& 0 <= b.size.height <= k
    &&& k <= CAP()
}
pub open spec fn caret_ok(c: Caret, k: int) -> bool {
    0 <= c.pos.x <= k && 0 <= c.pos.y <= k
}
pub open spec fn first_visible(b: Buffer) -> int {
    if b.is_terminal_buffer {
        if b.size.height - b.terminal_state.size.height > 0 { b.size.height - b.terminal_state.size.height } else { 0 }
    } else { 0 }
}
// C09: the cursor lies inside the visible screen
pub open spec fn caret_in_view(b: Buffer, c: Caret) -> bool {
    &&& 0 <= c.pos.x < b.terminal_state.size.width
    &&& first_visible(b) <= c.pos.y < first_visible(b) + b.terminal_state.size.height
}

pub open spec fn pos_of<P: Into<Position>>(p: P) -> Position {
    <P as vstd::std_specs::convert::IntoSpec<Position>>::into_spec(p)
}
pub open spec fn into_ok<P: Into<Position>>() -> bool {
    <P as vstd::std_specs::convert::IntoSpec<Position>>::obeys_into_spec()
}
pub open spec fn cell_equiv(a: AttributedChar, b: AttributedChar) -> bool {
    a == b || (a.attribute.attr & 0x8000 != 0 && b.attribute.attr & 0x8000 != 0)
}
// everything of a layer except `lines` and `sixels`
pub open spec fn layer_frame(a: Layer, b: Layer) -> bool {
    &&& a.role == b.role
    &&& a.transparency == b.transparency
    &&& a.properties == b.properties
    &&& a.default_font_page == b.default_font_page
    &&& a.preview_offset == b.preview_offset
    &&& a.size == b.size
    &&& a.hyperlinks == b.hyperlinks
}
impl Layer {
    // O1: stands for the statement `self.sixels.retain(|x| ..float geometry..)` of Layer::set_char.
    // ASSUMED frame: only `self.sixels` changes.
    #[verifier::external_body]
    pub fn vx_retain_sixels(&mut self, pos: Position, font_dims: Size)
        ensures
            layer_frame(*old(self), *final(self)),
            final(self).lines == old(self).lines,
    {
        unimplemented!()
    }
}

// S4 (ASSUMED): `#[derive(Clone)]` on Line is structural.
impl Clone for Line {
    #[verifier::external_body]
    fn clone(&self) -> (r: Self)
        ensures r == *self,
    {
        Line { chars: self.chars.clone() }
    }
}
// S6 (ASSUMED): std's blanket `impl<T> From<T> for T` is the identity (Position -> Position).
#[verifier::external_body]
pub proof fn axiom_position_into_self()
    ensures
        into_ok::<Position>(),
        forall|p: Position| #[trigger] pos_of::<Position>(p) == p,
{
}
