"""Runs one VX unit: extract from /repo, run Verus, classify every diagnostic into an obligation id,
count obligations from the AIR log, scan for assumptions, run the vacuity canary.

Result object (dict):
  status: 'ok' | 'violations' | 'undecided'
  obligations, discharged (ints), failures: [ {id, prop, kind, fn, message, where, spans, rendered} ]
  undecided: [reason...]   functions: [...]   assumptions: [...]   fired: [...]   times
"""
import hashlib
import threading
import json
import os
import re
import shutil
import subprocess
import sys
import tempfile
import time

sys.path.insert(0, os.path.dirname(os.path.abspath(__file__)))
import extract  # noqa: E402

VX = os.path.dirname(os.path.abspath(__file__))
BUILD = os.path.join(os.path.dirname(VX), "build", "vx")

KIND_BY_MSG = [
    ("postcondition not satisfied", "ensures"),
    ("index in bounds", "index"),
    ("precondition not met", "requires-of-callee"),
    ("precondition not satisfied", "requires-of-callee"),
    ("invariant not satisfied before loop", "invariant-entry"),
    ("invariant not satisfied at end of loop body", "invariant-preserved"),
    ("loop invariant not satisfied", "invariant-preserved"),
    ("decreases not satisfied", "decreases"),
    ("could not prove termination", "decreases"),
    ("loop must have a decreases clause", "decreases"),
    ("possible arithmetic underflow/overflow", "overflow"),
    ("possible division by zero", "div0"),
    ("assertion failed", "assert"),
    ("requires not satisfied", "assert"),     # the `requires` of an `assert(..) by(nonlinear_arith / bit_vector) requires ..` hint
    ("assertion not satisfied", "assert"),
    ("possible bit shift underflow/overflow", "overflow"),
    ("possible truncation", "overflow"),
    ("unwrap", "unwrap"),
    ("recommendation not met", "recommends"),
    ("bit_vector", "assert"),
    ("integer_ring", "assert"),
    ("nonlinear_arith", "assert"),
    ("trait method implementation", "ensures"),
]

PANIC_KINDS = {"index", "overflow", "div0", "unwrap"}
PANIC_PROPS = {"C01", "C02"}

RESOURCE_MSGS = ("Resource limit (rlimit) exceeded", "resource limit", "timed out", "Verus Internal Error",
                 "solver returned unknown", "smt solver", "rlimit")

CANARY = """
// vacuity canary: this obligation MUST fail; if it verifies, the axioms of the unit are inconsistent.
proof fn vx__canary()
    ensures false,
{
}
"""

ASSUME_PATTERNS = [
    (re.compile(r"\bassume\s*\("), "assume"),
    (re.compile(r"\badmit\s*\("), "admit"),
    (re.compile(r"#\[verifier::external_body\]"), "external_body"),
    (re.compile(r"\bassume_specification\b"), "assume_specification"),
    (re.compile(r"#\[verifier::external\]"), "external"),
    (re.compile(r"external_type_specification"), "external_type_specification"),
    (re.compile(r"#\[verifier::external_fn_specification\]"), "external_fn_specification"),
    (re.compile(r"#\[verifier::truncate\]"), "truncate"),
    (re.compile(r"#\[verifier::exec_allows_no_decreases_clause\]"), "no_decreases"),
    (re.compile(r"#\[verifier::assume_termination\]"), "assume_termination"),
]


def scan_assumptions(text):
    """Return list of (kind, line_no, context) for every assumption marker in the generated text.
    context = name of the next item (fn/const/struct) following the marker."""
    out = []
    lines = text.split("\n")
    for n, ln in enumerate(lines):
        if ln.strip().startswith("//"):
            continue
        code = ln.split("//")[0]
        for rx, kind in ASSUME_PATTERNS:
            if rx.search(code):
                if "lemma proved in unit" in ln:
                    kind = "imported-lemma(" + ln.split("lemma proved in unit")[1].strip() + ")"
                ctx = ""
                for j in range(n, min(n + 12, len(lines))):
                    m = re.search(r"\b(?:fn|const|struct|enum|type|static)\s+(\w+)", lines[j])
                    if m:
                        ctx = m.group(1)
                        break
                    m = re.search(r"assume_specification.*?\[\s*([^\]]+)\]", lines[j])
                    if m:
                        ctx = m.group(1).strip()
                        break
                out.append((kind, n + 1, ctx))
    return out


def count_air_obligations(air_path):
    """Count `(assert ("msg"...` nodes inside `;; Function-Def` check-valid blocks of the AIR log.
    Returns dict function -> count, and total."""
    per_fn = {}
    cur = None
    in_def = False
    try:
        f = open(air_path, errors="replace")
    except OSError:
        return {}, 0
    with f:
        prev_assert = False
        for ln in f:
            if ln.startswith(";; Function-Def "):
                cur = ln[len(";; Function-Def "):].strip()
                in_def = True
                continue
            if ln.startswith(";; Function-") and not ln.startswith(";; Function-Def "):
                in_def = False
                continue
            if not in_def:
                continue
            s = ln.strip()
            if prev_assert and s.startswith('("'):
                per_fn[cur] = per_fn.get(cur, 0) + 1
            prev_assert = (s == "(assert")
    return per_fn, sum(per_fn.values())


def classify(msg):
    for key, kind in KIND_BY_MSG:
        if key in msg:
            return kind
    return "other"


def line_hash(text):
    return hashlib.sha256(re.sub(r"\s+", " ", text.strip()).encode()).hexdigest()[:6]


BUFFER_KIND = {"terminal": "b.is_terminal_buffer", "picture": "!b.is_terminal_buffer", "any": "true"}
_KIND = threading.local()


def run_unit(unit_path, repo="/repo", tier="quick", seed=0, keep=False, extra_args=None, rlimit=None,
             only_fn=None, buffer_kind=None):
    _KIND.value = buffer_kind
    try:
        r = _run_unit(unit_path, repo, tier, seed, keep, extra_args, rlimit, only_fn)
    finally:
        _KIND.value = None
    if buffer_kind:
        r["buffer_kind"] = buffer_kind
    return r


def _run_unit(unit_path, repo="/repo", tier="quick", seed=0, keep=False, extra_args=None, rlimit=None,
              only_fn=None):
    """Runs the unit; if rustc cannot find a *constant* that the (changed) code refers to, the constant's item is
    extracted from the same source files and the unit is run again (rule AUTO-CONST: the item text is the real one)."""
    extra = []
    for _attempt in range(3):
        r = _run_unit_once(unit_path, repo, tier, seed, keep, extra_args, rlimit, only_fn, extra)
        if r["status"] != "undecided":
            break
        names = set()
        for u in r["undecided"]:
            for m in re.finditer(r"cannot find value `([A-Z][A-Z0-9_]*)` in this scope", u):
                names.add(m.group(1))
        if not names:
            break
        files = sorted(set(f.get("file") for f in r.get("functions", []) if isinstance(f, dict) and f.get("file")))
        added = []
        for nm in sorted(names):
            for f in files:
                try:
                    txt = open(os.path.join(repo, f)).read()
                except OSError:
                    continue
                m = re.search(r"^(?:pub(?:\([a-z]+\))? )?(const|static) " + nm + r"\b", txt, re.M)
                if m:
                    spec = f"{f} :: {m.group(1)} {nm}"
                    if spec not in extra:
                        extra.append(spec)
                        added.append(spec)
                    break
        if not added:
            break
    # ISOLATE: a function that ran out of resources in the joint run is verified once more on its own (fresh solver
    # process, same text, same rlimit). Observed: after a *failed* function the shared Z3 process is in a different state and
    # an unrelated, unchanged function 4 x slower. A pass in isolation discharges exactly the same obligations.
    if (r["status"] != "ok" and r.get("rlimit_fns") and not only_fn and r["undecided"]
            and all(u.startswith("resource limit:") for u in r["undecided"])):
        ok_all = True
        for q in r["rlimit_fns"]:
            r2 = _run_unit_once(unit_path, repo, tier, seed, False, extra_args, rlimit, q, extra)
            pf = [x for x in r2["times"].get("per_function", []) if x["function"].endswith("::" + q)]
            others = [u for u in r2["undecided"] if not u.startswith("vacuity canary") ]
            if not (pf and all(x["success"] for x in pf) and not r2["failures"] and not others):
                ok_all = False
                break
            r.setdefault("fired", []).append(dict(rule="ISOLATE", file="", line=0,
                                                  note=f"{q}: resource limit in the joint run, verified alone in {pf[0]['ms']} ms"))
        if ok_all:
            r["undecided"] = []
            r["status"] = "violations" if r["failures"] else "ok"
    if extra:
        r.setdefault("fired", []).extend(dict(rule="AUTO-CONST", file=x.split(" :: ")[0], line=0, note=x) for x in extra)
    return r


def _run_unit_once(unit_path, repo="/repo", tier="quick", seed=0, keep=False, extra_args=None, rlimit=None,
                   only_fn=None, extra_items=None):
    t0 = time.time()
    res = dict(unit=os.path.basename(unit_path)[:-3], status="ok", obligations=0, discharged=0, failures=[],
               undecided=[], functions=[], assumptions=[], fired=[], times={}, verus_cmd="")
    os.makedirs(BUILD, exist_ok=True)
    work = tempfile.mkdtemp(prefix=res["unit"] + "-", dir=BUILD)
    try:
        try:
            gen = extract.assemble(repo, unit_path, extra_items=extra_items)
        except extract.LostAnchor as e:
            res["status"] = "undecided"
            res["undecided"].append(f"lost anchor: {e}")
            return res
        except (extract.UnitSyntaxError, extract.rustlex.LexError) as e:
            res["status"] = "undecided"
            res["undecided"].append(f"extraction error: {e}")
            return res
        text = gen.text.replace("\n} // verus!", CANARY + "\n} // verus!")
        kind = getattr(_KIND, "value", None)
        if kind and "/*@VX_BUFFER_KIND@*/ true" in text:
            text = text.replace("/*@VX_BUFFER_KIND@*/ true", f"/* buffer kind: {kind} */ " + BUFFER_KIND[kind])
            res["buffer_kind"] = kind
        if "allocator_api" in text and "#![feature(allocator_api)]" not in text:
            pass
        src = os.path.join(work, res["unit"] + ".rs")
        open(src, "w").write(text)
        res["generated"] = src
        res["fired"] = [dict(rule=r, file=f, line=l, note=n) for r, f, l, n in gen.fired]
        res["functions"] = gen.functions
        res["items"] = gen.items
        res["dropped_hints"] = gen.dropped_hints
        hintless = {f for f, _ in gen.dropped_hints}
        # assumption scan
        allowed = gen.unit.allow
        for kind, ln, ctxname in scan_assumptions(text):
            org = gen.linemap.get(ln, ("raw", "?"))
            res["assumptions"].append(dict(kind=kind, name=ctxname, line=ln, origin=str(org[1]) if len(org) > 1 else ""))
        unlisted = [a for a in res["assumptions"] if a["kind"] in ("assume", "admit") and
                    not any(al in (a["name"] or "") for al in allowed)]
        if unlisted:
            res["status"] = "undecided"
            res["undecided"].append(f"unlisted assume/admit in generated text: {unlisted}")
        logdir = os.path.join(work, "log")
        args = ["verus", src, "--output-json", "--time-expanded", "--multiple-errors", "40",
                "--log", "air", "--log-dir", logdir, "--no-report-long-running"]
        rl = rlimit
        for a in gen.unit.verus_args:
            args.append(a)
        if rl:
            args += ["--rlimit", str(rl)]
        if tier == "thorough" and seed:
            args += ["--smt-option", f"smt.random_seed={seed}"]
        if only_fn:
            args += ["--verify-root", "--verify-function", only_fn]
        if extra_args:
            args += extra_args
        args += ["--", "--error-format=json"]
        res["verus_cmd"] = " ".join(args)
        p = subprocess.run(args, capture_output=True, text=True, cwd=work)
        res["times"]["verus_wall_s"] = round(time.time() - t0, 2)
        try:
            summary = json.loads(p.stdout)
        except Exception:
            summary = None
        diags = []
        for ln in p.stderr.split("\n"):
            ln = ln.strip()
            if ln.startswith("{"):
                try:
                    diags.append(json.loads(ln))
                except Exception:
                    pass
            elif ln:
                res.setdefault("stderr_other", []).append(ln[:300])
        vr = (summary or {}).get("verification-results", {})
        res["verus_results"] = vr
        if summary:
            smt = summary.get("times-ms", {}).get("smt", {})
            res["times"]["smt_ms"] = smt.get("total")
            fb = []
            for m in smt.get("smt-run-module-times", []):
                for f in m.get("function-breakdown", []):
                    fb.append(dict(function=f["function"], mode=f.get("mode:"), ms=f["time"], rlimit=f["rlimit"],
                                   success=f["success"]))
            res["times"]["per_function"] = fb
        errors = [d for d in diags if d.get("level") == "error" and d.get("spans")]
        hard = [d for d in diags if d.get("level") == "error" and not d.get("spans") and
                "aborting due to" not in d.get("message", "")]
        if summary is None or vr.get("encountered-vir-error") or (not vr and p.returncode != 0):
            res["status"] = "undecided"
            msgs = [d.get("rendered") or d.get("message") for d in diags if d.get("level") == "error"][:6]
            res["undecided"].append("verus could not process the unit (construct outside the accepted subset or "
                                    "tool error): " + " | ".join((m or "")[:600] for m in msgs) + " " + p.stdout[-300:])
            return res
        # obligations from AIR
        per_fn, total = count_air_obligations(os.path.join(logdir, "root.air"))
        res["air_per_fn"] = per_fn
        # classify diagnostics
        fn_by_line = []
        for f in gen.functions:
            fn_by_line.append((f["gen_lo"], f["gen_hi"], f))
        canary_failed = False
        seen_ids = {}
        for d in errors:
            msg = d["message"]
            if any(k.lower() in msg.lower() for k in RESOURCE_MSGS):
                spans = d["spans"]
                where = ""
                for sp in spans:
                    if sp["file_name"].endswith(res["unit"] + ".rs"):
                        org = gen.linemap.get(sp["line_start"])
                        where = str(org)
                res["undecided"].append(f"resource limit: {msg} at {where}")
                # which function ran out of resources (used by the ISOLATE retry in run_unit)
                for sp in spans:
                    if sp["file_name"].endswith(res["unit"] + ".rs"):
                        for lo, hi, f in fn_by_line:
                            if lo <= sp["line_start"] < hi:
                                quals = [x["function"] for x in res["times"].get("per_function", [])
                                         if x["function"].endswith("::" + f["label"]) and not x["success"]]
                                if len(quals) == 1:
                                    q = quals[0].split("::", 1)[1]
                                    if q not in res.setdefault("rlimit_fns", []):
                                        res["rlimit_fns"].append(q)
                continue
            kind = classify(msg)
            if kind == "other" or d.get("code"):
                # not a verification verdict (syntax / type / mode error, unsupported construct): undecided
                res["undecided"].append("verus rejected the unit: " + (d.get("rendered") or msg)[:1500])
                continue
            prim = None
            clause = None
            clause_tag = None
            for sp in d["spans"]:
                if not sp["file_name"].endswith(res["unit"] + ".rs"):
                    continue
                org = gen.linemap.get(sp["line_start"])
                if org and org[0] == "ins" and org[2] and (org[2].startswith("ensures[") or org[2].startswith("invariant[")
                                                           or org[2].startswith("requires[") or org[2].startswith("decreases")
                                                           or org[2].startswith("invariant_except_break[")):
                    if not sp["is_primary"] or clause is None:
                        clause = org
                        clause_tag = org[3]
                if org and org[0] == "ins" and org[2] and str(org[2]).startswith("proof:") and len(org) > 3 and org[3] and sp["is_primary"]:
                    # a proof hint that serves one property only (`@proof ... tags=C05`): its failure is not an alarm of the others
                    clause_tag = clause_tag or org[3]
                if sp["is_primary"] and prim is None:
                    prim = sp
            if prim is None:
                # the violated clause lives outside the unit file (a trait specification of vstd, e.g. PartialEq::eq == eq_spec):
                # the function is the one whose exit the diagnostic names
                for sp in d["spans"]:
                    if sp["file_name"].endswith(res["unit"] + ".rs") and sp.get("label") and \
                            ("at this exit" in sp["label"] or "at the end of the function body" in sp["label"]):
                        prim = sp
                        break
            if prim is None:
                # error located outside the unit file (e.g. in vstd) - treat as undecided
                res["undecided"].append(f"diagnostic without location in unit: {msg}")
                continue
            exit_sp = None
            for sp in d["spans"]:
                if sp["file_name"].endswith(res["unit"] + ".rs") and sp.get("label") and \
                        ("at this exit" in sp["label"] or "at the end of the function body" in sp["label"]
                         or "at this loop exit" in sp["label"]):
                    exit_sp = sp
            gl = prim["line_start"]
            if "vx__canary" in (prim["text"][0]["text"] if prim["text"] else "") or _in_canary(text, gl):
                canary_failed = True
                continue
            fn = None
            for lo, hi, f in fn_by_line:
                if lo <= gl < hi:
                    fn = f
            org = gen.linemap.get(gl, ("raw", "?"))
            src_text = prim["text"][0]["text"] if prim["text"] else ""
            if exit_sp is not None and clause is not None:
                eorg = gen.linemap.get(exit_sp["line_start"], ("raw", "?"))
                etext = exit_sp["text"][0]["text"] if exit_sp["text"] else ""
                if exit_sp["line_end"] - exit_sp["line_start"] > 2:
                    etext = "end-of-body"
                if eorg[0] == "src":
                    where = f"{eorg[1]}:{eorg[2]}"
                    src_text = etext
                else:
                    where = f"contract {org[1]}/{org[2]}" if org[0] == "ins" else str(org[1])
                anchor = line_hash(etext)
            elif org[0] == "src":
                where = f"{org[1]}:{org[2]}"
                anchor = line_hash(src_text)
            elif org[0] == "ins":
                where = f"contract {org[1]}/{org[2]}"
                anchor = org[2]
            else:
                where = f"unit text {org[1]}"
                anchor = line_hash(src_text)
            fn_label = fn["label"] if fn else (org[1] if org[0] == "ins" else _raw_fn_name(text, gl))
            if clause is not None:
                oid = f"{res['unit']}/{fn_label}/{kind}/{clause[2]}@{anchor}"
            else:
                oid = f"{res['unit']}/{fn_label}/{kind}@{anchor}"
            n = seen_ids.get(oid, 0)
            seen_ids[oid] = n + 1
            if n:
                oid += f"#{n}"
            if fn_label in hintless:
                res["undecided"].append(f"proof hint of {fn_label} lost its anchor ({[m for f_, m in gen.dropped_hints if f_ == fn_label][0][:200]}); "
                                        f"without it the verifier cannot decide: {msg} at {where}")
                continue
            tags = []
            if clause_tag:
                tags = clause_tag.split(",")
            elif fn and fn.get("tags"):
                tags = fn["tags"]
            else:
                tags = gen.unit.props
            # A reachable panic (index, overflow, division, unwrap / expect / assert! / panic macro through the precondition of the std
            # function) that no contract clause names is a violation of the panic-freedom properties only (C01 streams, C02 files).
            # The functional properties sharing the function (cursor in view, round trips, ...) say nothing about it: no alarm there.
            # Functions that serve no panic-freedom property keep their own tags.
            # requires-of-callee is a panic obligation only when the violated precondition belongs to a std / vstd function (its span lies
            # outside the unit file: unwrap, expect, slicing, remove ..) or to the panic-macro stand-in vx_panics; a precondition written in
            # the unit (contract of an extracted function or of a stub) is a functional clause and keeps the function's tags
            pre_in_unit = any(sp_["file_name"].endswith(res["unit"] + ".rs") and not sp_["is_primary"] for sp_ in d["spans"])
            std_pre = kind == "requires-of-callee" and clause is None and (not pre_in_unit or "vx_panics" in src_text)
            if not clause_tag and (kind in PANIC_KINDS or std_pre):
                narrowed = [t for t in tags if t in PANIC_PROPS]
                if narrowed:
                    tags = narrowed
            res["failures"].append(dict(id=oid, props=tags, kind=kind, fn=fn_label, message=msg, where=where,
                                        source_line=src_text.strip(), clause=(clause[4] if clause and len(clause) > 4 else None),
                                        rendered=d.get("rendered", "")[:4000],
                                        fn_hash=fn["hash"] if fn else None))
        if hard and not errors:
            res["undecided"].append("verus reported errors without locations: " +
                                    " | ".join(h["message"][:300] for h in hard))
        if not canary_failed:
            res["status"] = "undecided"
            res["undecided"].append("vacuity canary verified: the unit's assumptions are inconsistent (or Verus did "
                                    "not check the file)")
        # the canary is one obligation that must fail; remove it from the count
        total_no_canary = total - per_fn_lookup(per_fn, "vx__canary")
        res["obligations"] = total_no_canary
        res["discharged"] = max(0, total_no_canary - len(res["failures"]))
        if total_no_canary <= 0:
            res["status"] = "undecided"
            res["undecided"].append("no obligations were generated (vacuous unit)")
        if res["undecided"] and res["status"] == "ok":
            res["status"] = "undecided"
        if res["failures"] and res["status"] == "ok":
            res["status"] = "violations"
        res["times"]["total_wall_s"] = round(time.time() - t0, 2)
        return res
    finally:
        if not keep:
            shutil.rmtree(work, ignore_errors=True)


def per_fn_lookup(per_fn, name):
    return sum(v for k, v in per_fn.items() if name in k)


def _in_canary(text, gl):
    lines = text.split("\n")
    for j in range(gl - 1, max(0, gl - 6), -1):
        if "fn vx__canary" in lines[j]:
            return True
        if re.search(r"\bfn\s+\w+", lines[j]):
            return False
    return False


def _raw_fn_name(text, gl):
    lines = text.split("\n")
    for j in range(min(gl, len(lines)) - 1, -1, -1):
        m = re.search(r"\bfn\s+(\w+)", lines[j])
        if m:
            return m.group(1)
    return "?"


if __name__ == "__main__":
    import argparse
    ap = argparse.ArgumentParser()
    ap.add_argument("unit")
    ap.add_argument("--repo", default="/repo")
    ap.add_argument("--keep", action="store_true")
    ap.add_argument("--fn")
    ap.add_argument("--rlimit")
    ap.add_argument("--kind", choices=sorted(BUFFER_KIND))
    a = ap.parse_args()
    up = a.unit if os.path.exists(a.unit) else os.path.join(VX, "units", a.unit + ".vc")
    r = run_unit(up, a.repo, keep=a.keep, only_fn=a.fn, rlimit=a.rlimit, buffer_kind=a.kind)
    print("status:", r["status"], "obligations:", r["obligations"], "discharged:", r["discharged"],
          "wall:", r["times"].get("total_wall_s"))
    for u in r["undecided"]:
        print("UNDECIDED:", u[:3000])
    for f in r["failures"]:
        print("FAIL", f["id"], f["props"], "|", f["message"], "|", f["where"], "|", f["source_line"][:100],
              "|", (f["clause"] or "")[:100])
    if a.keep:
        print("generated:", r.get("generated"))
    slow = sorted(r["times"].get("per_function", []), key=lambda x: -x["ms"])[:5]
    for s in slow:
        print("  time", s["function"], s["ms"], "ms", "ok" if s["success"] else "FAILED")
